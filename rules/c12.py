"""C12 — equality and ordering are coherent (DESIGN §4 C12)."""
from lib import hir as H
CORE = "blots_core::"
from lib import sig as S
from lib import binop as B
from lib.facts import CheckerError
from rules import c11

NEED = ("dev",)
L, R = B.L, B.R
CANON = {"Less": ["Less"], "LessEq": ["Less", "Equal"], "Greater": ["Greater"], "GreaterEq": ["Greater", "Equal"]}
UCANON = {"Ult": {"Less"}, "Ulte": {"Less", "Equal"}, "Ugt": {"Greater"}, "Ugte": {"Greater", "Equal"}}


def arm_leaves(core, fn):
    f = core.hir_fn("blots_core::values::Value::" + fn)
    m = H.final_expr(f["body"])
    if H.kind(m) != "Match":
        raise CheckerError("Value::%s does not end in a match on (self, other)" % fn)
    sc = S.norm(m["scrut"], S.Env())
    if sc != ("tup", ("var", "self"), ("var", "other")):
        raise CheckerError("Value::%s does not match on (self, other): %s" % (fn, S.show(sc)))
    out = {}
    for a in m["arms"]:
        # `(List(a), List(b)) | (Spread(List(a)), Spread(List(b))) => ..`: one body for several pairs - each alternative is a row
        alts = a["pat"]["pats"] if H.kind(a["pat"]) == "Or" else [a["pat"]]
        for alt in alts:
            env = S.Env()
            pats = alt["pats"] if H.kind(alt) == "Tuple" else []
            for i, p in enumerate(pats):
                for bn in H.pat_binds(p):
                    env.roles[bn] = L if i == 0 else R
            lv = []
            B.leaves(a["body"], env, lv)
            out.setdefault(S.pat_sig(alt), (lv, a))
    return out


def reified(kind, role):
    return ("try", ("call", kind, ("call", "reify", role)))


def run(ctx):
    core = ctx.core
    S.TEMPLATES = lambda n: ";".join(H.template_text(t) for t in H.macro_templates(core, n)) or None
    S.INLINE = S.default_inline(core)
    ctx.not_decided += ["transitivity / trichotomy as relations on values (they follow from std's orders on f64 without NaN, str, bool and usize given R3/R4)", "NaN (excluded by the statement)"]

    # ---------------- R1 one comparison table, every copy
    ctx.rule("C12.R1", "the expected-ordering sets of <, <=, >, >= (and their dot forms) equal the canonical table in the dot pre-match, the three broadcasting copies and ugt/ult/ugte/ulte", floor=24)
    C = B.Copies(core)
    oracle = {op: c11._cmp(*CANON[op]) for op in CANON}

    def copy_vals(copy, op, lf, mapping):
        arm = {"ll": C.arm_ll, "ls": C.arm_ls, "ss": C.arm_ss}[copy]
        env = C.base_env(copy, lf)
        env.op = (C.opname, op)
        flag = C.prelude(arm, env)
        if flag is not None and lf is not None:
            env.flags[flag[0]] = lf if flag[1] == C.lhs else (not lf)
        m = C.inner_op_match(arm["body"]) if copy != "ss" else H.final_expr(arm["body"])
        a = C.op_arm(m, op)
        lv = []
        if a is not None:
            B.leaves(a["body"], env, lv, op, C.opname)
        vals = [S.resort(c11.unhoist(S.subst(v, mapping))) for v in c11.values_of(lv) if not c11.is_result_wrapper(v)]
        return vals, a

    for op in CANON:
        for copy, lf, label, mapping in (("ss", None, "scalar", {}), ("ll", None, "list-list", {("elem", "L"): L, ("elem", "R"): R}),
                                         ("ls", True, "list-scalar", {("elem", "E"): L, ("role", "O"): R}), ("ls", False, "scalar-list", {("elem", "E"): R, ("role", "O"): L})):
            vals, a = copy_vals(copy, op, lf, mapping)
            v_ = S.verdict(tuple(vals), (S.resort(oracle[op]),))
            # no value recognised, or operands that could not be tied to the element variables (the copy hands the lists to helper
            # closures): restructured beyond what is modelled
            if v_ is False and (not vals or any(S.contains_head(x_, "wholelist") for x_ in vals)):
                v_ = None
            ctx.inst("C12.R1", "%s#%s" % (op, label), v_, "%s computes %s; canonical set %s" % (label, [S.show(v) for v in vals], CANON[op]), H.loc(a["body"]) if a else None)
        dop = "Dot" + op
        a = C.op_arm(C.dot_match, dop)
        env = S.Env(roles={C.lhs: L, C.rhs: R})
        lv = []
        B.leaves(a["body"], env, lv, dop, C.opname)
        rets = [S.resort(x[1]) for x in lv if x[0] == "return"]
        ctx.inst("C12.R1", "%s#dot" % dop, S.verdict(tuple(rets), (S.resort(oracle[op]),)), "dot arm returns %s; canonical set %s" % ([S.show(r) for r in rets], CANON[op]), H.loc(a["body"]))
    # unchecked built-ins
    bic = core.hir_fn("blots_core::functions::BuiltInFunction::call")
    m = H.main_match(bic["body"], "functions::BuiltInFunction")
    argsname = H.pat_binds(bic["params"][1])[0]
    # ---- R6 the checked comparison helper
    ctx.rule("C12.R6", "check_ordering answers `expected.contains(ordering)` when the values are comparable and reports an error on every path when they are not (the checked operators never answer on incomparable operands; only ugt/ult/ugte/ulte do)", floor=2)
    from lib import mir as M
    CO = "blots_core::expressions::check_ordering"
    try:
        co = M.Fn(core.mir_fn(CO), CO)
    except Exception:
        co = None
    if co is None:
        ctx.inst("C12.R6", "check_ordering", None, "helper check_ordering not found (comparison arms decided by R1 only)", None)
    else:
        try:
            regions, sw = M.variant_regions(co, "core::option::Option", root_param=1)
        except CheckerError:
            regions = None
        if regions is None:
            ctx.inst("C12.R6", "check_ordering", None, "no match on the Option<Ordering> parameter found", co.loc())
        else:
            res = {"None": [], "Some": []}
            for b in range(co.n):
                if co.blocks[b].get("cleanup"):
                    continue
                for st_ in co.stmts(b):
                    if st_["k"] == "assign" and st_["rv"]["k"] == "agg" and st_["rv"].get("adt") == "core::result::Result" and st_["lhs"]["l"] == 0 and not st_["lhs"]["p"]:
                        for reg in M.region_of(regions, b):
                            res.setdefault(reg, []).append((st_["rv"]["variant"], b, st_))
            none_ok = bool(res["None"]) and all(v == "Err" for v, _, _ in res["None"])
            ctx.inst("C12.R6", "check_ordering[None]", none_ok, "results produced when the values are incomparable: %s (must be Err on every path)" % [v for v, _, _ in res["None"]], co.loc())
            some_ok = bool(res["Some"])
            det = []
            for v, b, st_ in res["Some"]:
                if v != "Ok":
                    some_ok = False
                    det.append("Err")
                    continue
                roots = co.trace(st_["rv"]["ops"][0])
                good = bool(roots) and all(r[0] == "call" and r[1].endswith("contains") for r in roots)
                some_ok = some_ok and good
                det.append("Ok(%s)" % [r[1] if r[0] == "call" else r[0] for r in roots])
            ctx.inst("C12.R6", "check_ordering[Some]", some_ok, "results when comparable: %s (must be Ok(expected.contains(ordering)))" % det, co.loc())

    ctx.rule("C12.R5", "ugt/ult/ugte/ulte compare args[0] with args[1] in that order, answer true exactly on the canonical orderings and false (never an error) when the values are not comparable", floor=4)
    for a in m["arms"]:
        vs = [H.last(v) for v in H.pat_variants(a["pat"])]
        for v in vs:
            if v not in UCANON:
                continue
            t = S.norm(a["body"], S.Env(roles={argsname: ("args",)}))
            # not the modelled shape (a shared closure / helper, another way of matching the ordering): no verdict, except for the
            # one positively wrong shape we can name: the operands compared in the other order
            swapped = ("try", ("call", "compare", ("index", ("args",), ("lit", "1")), ("index", ("args",), ("lit", "0"))))
            ok, d = (False if S.contains(t, swapped) else None), S.show(t)
            def eq_on_operands(x):
                if isinstance(x, tuple):
                    if len(x) == 4 and x[0] == "bin" and x[1] in ("Eq", "Ne") and (S.contains(x[2], ("args",)) or S.contains(x[3], ("args",))):
                        return True
                    return any(eq_on_operands(y) for y in x)
                return False
            if S.contains_call(t, "equals") or eq_on_operands(t):
                # the unchecked comparisons derive from compare() alone; an extra equality test answers `true` for operands that are
                # equal but not ordered (null, records, functions) - or, with the derived ==, false for equal values in different heap cells
                ok, d = False, "the arm also tests equality (%s): ugte/ulte must answer from compare() only" % S.show(t)[:200]
            if t[0] == "match" and t[1] == ("try", ("call", "compare", ("index", ("args",), ("lit", "0")), ("index", ("args",), ("lit", "1")))):
                true_sets, rest_false, other = set(), False, False
                for pat, body in t[2]:
                    if body == ("ctor", "Bool", ("lit", "true")) and pat[0] == "Some":
                        inner = pat[1] if len(pat) > 1 else None
                        names = [x[0] for x in inner[1:]] if inner and inner[0] == "or" else ([inner[0]] if inner else [])
                        true_sets |= set(names)
                    elif body == ("ctor", "Bool", ("lit", "false")) and pat == ("_",):
                        rest_false = True
                    else:
                        other = True
                ok = true_sets == UCANON[v] and rest_false and not other
                d = "true on %s, wildcard -> false: %s" % (sorted(true_sets), rest_false)
            # the answer comes from Value::compare alone: an arm (or a helper it calls) that looks at the operands itself - their kind, their
            # length - decides comparability by a rule of its own
            arm_inl = a["body"]
            peeks = sorted({x["name"] for x in H.walk(arm_inl) if H.kind(x) == "MethodCall" and x["name"] in ("len", "as_list", "as_string", "as_record", "as_number", "get_type", "is_list", "is_string", "is_number", "is_record", "reify", "is_empty")})
            if peeks and ok is not False:
                ok, d = False, "besides compare() the arm inspects its operands (%s): comparability is decided by a second rule" % peeks
            if ok is None:
                # another way of writing it (merged arms, a predicate method, `is_some_and`): specialise the arm for this variant and for each
                # possible answer of compare() and read off when it says true (lib/pe - constants folded, nothing is run)
                got = pe_unchecked(core, a, v, argsname)
                if got is not None:
                    true_set, none_val = got
                    ok = (true_set == UCANON[v]) and (none_val is False)
                    d = "specialised for %s: true on %s, not comparable -> %s" % (v, sorted(true_set), none_val)
            ctx.inst("C12.R1", "%s#builtin" % v, ok, d, H.loc(a["body"]))
            ctx.inst("C12.R5", v, ok, "incomparable / other orderings fall to `_ => Ok(Bool(false))`; operands args[0], args[1] in order: %s" % ok, H.loc(a["body"]))

    # ---------------- R2 .!= is the negation of .==
    ctx.rule("C12.R2", "!= / .!= compute Not of the same equals call as == / .== in every copy", floor=5)
    eq = ("ctor", "Bool", ("try", ("call", "equals") + tuple(sorted((L, R), key=repr))))
    ne = ("ctor", "Bool", ("un", "Not", ("try", ("call", "equals") + tuple(sorted((L, R), key=repr)))))
    for copy, lf, label, mapping in (("ss", None, "scalar", {}), ("ll", None, "list-list", {("elem", "L"): L, ("elem", "R"): R}),
                                     ("ls", True, "list-scalar", {("elem", "E"): L, ("role", "O"): R}), ("ls", False, "scalar-list", {("elem", "E"): R, ("role", "O"): L})):
        v1, a1 = copy_vals(copy, "Equal", lf, mapping)
        v2, a2 = copy_vals(copy, "NotEqual", lf, mapping)
        vb_ = S.both(S.verdict(tuple(v1), (S.resort(eq),)), S.verdict(tuple(v2), (S.resort(ne),)))
        if vb_ is False and (not v1 or not v2 or any(S.contains_head(x_, "wholelist") for x_ in v1 + v2)):
            vb_ = None   # nothing recognised / operands not tied to the element variables: restructured beyond what is modelled
        ctx.inst("C12.R2", "Equal/NotEqual#%s" % label, vb_, "== computes %s, != computes %s" % ([S.show(v) for v in v1], [S.show(v) for v in v2]), H.loc(a2["body"]) if a2 else None)
    for dop, want in (("DotEqual", eq), ("DotNotEqual", ne)):
        a = C.op_arm(C.dot_match, dop)
        lv = []
        B.leaves(a["body"], S.Env(roles={C.lhs: L, C.rhs: R}), lv, dop, C.opname)
        rets = [S.resort(x[1]) for x in lv if x[0] == "return"]
        ctx.inst("C12.R2", "%s#dot" % dop, S.verdict(tuple(rets), (S.resort(want),)), "returns %s" % [S.show(r) for r in rets], H.loc(a["body"]))

    # ---------------- R3 equals / compare agree pair by pair
    ctx.rule("C12.R3", "Value::equals and Value::compare: per (variant, variant) pair the primitives come from one std type (== with partial_cmp on f64 / bool / str), lists and records are compared structurally with an exact length test, different kinds are never equal and never ordered", floor=12)
    EQ, CMP = arm_leaves(core, "equals"), arm_leaves(core, "compare")

    def vals(lv):
        return [x for x in lv if x[0] in ("value", "return", "when", "unless", "loop-over")]

    def single_value(tab, key):
        if key not in tab:
            return None
        lv = vals(tab[key][0])
        return lv[0][1] if len(lv) == 1 and lv[0][0] == "value" else None

    for kind in ("Number", "Bool"):
        key = ("tup", (kind,), (kind,))
        e, c = single_value(EQ, key), single_value(CMP, key)
        ctx.inst("C12.R3", "equals#%s" % kind, S.verdict_opt(e, ("bin", "Eq", L, R)), "equals: %s" % S.show(e) if e else "arm missing / not a single value", H.loc(EQ[key][1]["body"]) if key in EQ else None)
        ctx.inst("C12.R3", "compare#%s" % kind, S.verdict_opt(c, ("call", "partial_cmp", L, R)), "compare: %s" % S.show(c) if c else "arm missing / not a single value", H.loc(CMP[key][1]["body"]) if key in CMP else None)
    key = ("tup", ("String",), ("String",))
    e, c = single_value(EQ, key), single_value(CMP, key)
    sl, sr = reified("as_string", L), reified("as_string", R)
    ctx.inst("C12.R3", "equals#String", S.verdict_opt(e, ("bin", "Eq", sl, sr)), "equals: %s" % (S.show(e) if e else None), H.loc(EQ[key][1]["body"]) if key in EQ else None)
    ctx.inst("C12.R3", "compare#String", S.verdict_opt(c, ("call", "partial_cmp", sl, sr)), "compare: %s" % (S.show(c) if c else None), H.loc(CMP[key][1]["body"]) if key in CMP else None)
    e = single_value(EQ, ("tup", ("Null",), ("Null",)))
    ctx.inst("C12.R3", "equals#Null", S.verdict_opt(e, ("lit", "true")), "equals(null, null): %s" % (S.show(e) if e else None), None)
    # lists and records: structural (shared with C06 / C11)
    structural_equality(ctx, "C12.R3", core)
    # different kinds never equal / never ordered
    e, c = single_value(EQ, ("_",)), single_value(CMP, ("_",))
    ctx.inst("C12.R3", "equals#other", S.verdict_opt(e, ("lit", "false")), "wildcard arm of equals: %s" % (S.show(e) if e else None), None)
    ctx.inst("C12.R3", "compare#other", S.verdict_opt(c, ("path", "core::option::Option::None")), "wildcard arm of compare: %s" % (S.show(c) if c else None), None)
    # pair coverage
    cmp_pairs = {k for k in CMP if k != ("_",)}
    eq_pairs = {k for k in EQ if k != ("_",)}
    ctx.inst("C12.R3", "pair-coverage", cmp_pairs <= eq_pairs and all(k[0] == "tup" and k[1] == k[2] for k in cmp_pairs), "compare handles %s; equals handles %s" % (sorted(k[1][0] for k in cmp_pairs), sorted(k[1][0] for k in eq_pairs if len(k) > 1)), None)

    # ---------------- R4 lexicographic tie-break
    ctx.rule("C12.R4", "list comparison returns the first non-Equal element ordering and otherwise compares len(left) with len(right) in that order (a proper prefix is smaller)", floor=2)
    list_compare_rule(ctx, "C12.R4", core)

    # ---------------- R9 the comparison operators sit on their documented level
    ctx.rule("C12.R9", "every comparison operator (plain and dot-prefixed) is registered on the comparison level of the parser: `.>=` groups like `.>` and `.==`, so it is their union for every right operand, parenthesised or not", floor=12)
    from rules import c10 as c10_
    from rules.c04 import _Only
    c10_.CRATE[0] = core
    CMP_OPS = ("Equal", "NotEqual", "Less", "LessEq", "Greater", "GreaterEq", "DotEqual", "DotNotEqual", "DotLess", "DotLessEq", "DotGreater", "DotGreaterEq")
    c10_.binding_levels_rule(_Only(ctx, lambda k_: k_.startswith("op=") and k_[3:] in CMP_OPS or k_ == "build_pratt_parser#shape"), "C12.R9", core, c10_.precedence_rows(core))

    # ---------------- R10 a comparison keeps its operator in emitted source
    ctx.rule("C12.R10", "a function that compares keeps comparing the same way after it was emitted as source (output / to_string / formatter): each comparison operator is printed with the token the grammar reads for it - `.>=` printed as `>=` broadcasts over lists instead of ordering them", floor=12)
    from rules import printers as P_
    from lib.peg import Grammar as G_
    P_.L1_tokens(_Only(ctx, lambda k_: any(k_.endswith("[%s]" % o) for o in CMP_OPS) or k_ == "binary-token-tables"), "C12.R10", core, G_(ctx.grammar))

    # ---------------- R12 `1.==x` is `1 .== x`
    ctx.rule("C12.R12", "a dot-prefixed comparison keeps its dot when it follows a number: inside a number literal a `.` is always followed by a digit, so `1.==[1]` is the non-broadcasting `1 .== [1]` and not `1. == [1]`", floor=1)
    from lib.peg import Grammar as G12_
    c10_.dot_needs_digit(ctx, "C12.R12", G12_(ctx.grammar))

    # ---------------- R13 nothing answers a comparison ahead of the comparison
    ctx.rule("C12.R13", "a comparison is answered by its own arm: no statement of the operator evaluator returns a value between the evaluation of the operands and the dispatch on the operator (a shortcut for `xs .== []` answers from one operand), and each of ugt / ult / ugte / ulte has one unguarded arm in the built-in dispatch (a guarded arm in front answers `false` from the operand kinds, e.g. for two booleans, which are ordered)", floor=5)
    hbo13 = core.hir_fn("blots_core::expressions::evaluate_binary_op_ast")
    body13 = H.strip(hbo13["body"])
    early13 = []
    if H.kind(body13) == "Block":
        idx13 = [i for i, st in enumerate(body13["stmts"]) if st.get("k") == "Let" and st.get("init") is not None and any(H.kind(x) == "Call" and x.get("def") == "blots_core::expressions::evaluate_ast" for x in H.walk(st["init"]))]
        disp = [i for i, st in enumerate(body13["stmts"]) if st.get("k") in ("Expr", "Semi") and H.kind(H.strip(st["e"])) == "Match" and (H.strip(st["e"])["scrut"].get("ty") or "").lstrip("&").endswith("ast::BinaryOp")]
        if idx13 and disp and disp[0] > idx13[-1]:
            for st in body13["stmts"][idx13[-1] + 1:disp[0]]:
                for x in H.walk(st):
                    if H.kind(x) == "Ret" and x.get("e") is not None:
                        t_ = S.norm(x["e"], S.Env())
                        if not (t_[0] == "ctor" and t_[1] == "Err"):
                            early13.append(H.loc(x))
            ctx.inst("C12.R13", "operator-evaluator#no-answer-before-dispatch", not early13, "values returned between the operand evaluation and the first dispatch on the operator: %s" % (early13 or "none"), H.loc(body13["stmts"][disp[0]]["e"]))
        else:
            ctx.inst("C12.R13", "operator-evaluator#no-answer-before-dispatch", None, "operand evaluation / operator dispatch not found as statements of the function's block", H.loc(hbo13["body"]))
    hb13 = core.hir_fn("blots_core::functions::BuiltInFunction::call")
    mm13 = H.main_match(hb13["body"], "functions::BuiltInFunction")
    for u_ in ("Ugt", "Ult", "Ugte", "Ulte"):
        arms_u = [a_ for a_ in (mm13["arms"] if mm13 else []) if u_ in [H.last(v) for v in H.pat_variants(a_["pat"])]]
        guarded = [H.loc(a_["guard"]) for a_ in arms_u if a_.get("guard") is not None]
        ctx.inst("C12.R13", "builtin#%s#one-arm" % u_, None if not arms_u else (not guarded and len(arms_u) == 1), "%d arm(s) for %s; guarded: %s" % (len(arms_u), u_, guarded or "none"), H.loc(arms_u[0]["body"]) if arms_u else None)

    # ---------------- R11 an operator is never evaluated as another one
    ctx.rule("C12.R11", "the operator that is evaluated is the operator that was written: where the evaluator re-labels one comparison / equality operator as another (`.<=` handled by the arm of `<=`), the two have the same table - `.>=` sent to `>` answers false for equal operands", floor=1)
    SAME = {"DotEqual": "Equal", "DotNotEqual": "NotEqual", "DotLess": "Less", "DotLessEq": "LessEq", "DotGreater": "Greater", "DotGreaterEq": "GreaterEq"}
    n_rel = 0
    hbo = core.hir_fn("blots_core::expressions::evaluate_binary_op_ast")
    for m_ in H.walk(hbo["body"]):
        if H.kind(m_) != "Match" or not (m_["scrut"].get("ty") or "").lstrip("&").endswith("ast::BinaryOp"):
            continue
        for a_ in m_["arms"]:
            b_ = H.strip(a_["body"])
            while H.kind(b_) == "Block" and not b_["stmts"] and b_.get("expr") is not None:
                b_ = H.strip(b_["expr"])
            to_ = H.last(H.path_def(b_) or "") if H.kind(b_) == "Path" and (b_.get("ty") or "").lstrip("&").endswith("ast::BinaryOp") else None
            if not to_:
                continue
            for v_ in H.pat_variants(a_["pat"]):
                frm = H.last(v_)
                if frm == to_ or frm not in set(SAME) | set(SAME.values()):
                    continue
                n_rel += 1
                same_table = SAME.get(frm) == to_ or SAME.get(to_) == frm
                ctx.inst("C12.R11", "relabel[%s->%s]" % (frm, to_), None if same_table else False, "%s is evaluated by the arm of %s: %s" % (frm, to_, "same table (whether the two arms agree on every operand is C11's broadcasting law)" if same_table else "different tables"), H.loc(a_["body"]))
    ctx.inst("C12.R11", "relabel#none", True if n_rel == 0 else None, "comparison operators re-labelled as other operators in the evaluator: %d" % n_rel, None)

    # ---------------- R8 no answer from heap identity
    from rules import c02 as c02_
    from lib import mir as M_
    crs_ = [core, ctx.cli, ctx.wasm]
    cg_ = M_.CallGraph(crs_)
    local_ = sorted(n_ for n_ in cg_.reachable_from(c02_.EVAL_ROOTS) if n_ in cg_.fns)
    c02_.run_identity(ctx, cg_, local_, crs_, rid="C12.R8", doc="equality and ordering are answered from the values, never from heap identity: no evaluator-reachable code compares Values or heap pointers by their derived PartialEq/PartialOrd (a same-cell shortcut makes `r .<= r` succeed where `{a: 1} .<= {a: 1}` fails), except equality against the constant null")

    # ---------------- R7 the remainder after a lock-step walk
    ctx.rule("C12.R7", "in Value::compare / Value::equals and what they call, the remainder after a lock-step walk is never read from an iterator that was the left side of `by_ref().zip(..)`: zip takes one element from its left side before it sees that the right side is finished, so that remainder is one element short (a longer-by-one left operand would compare Equal)", floor=2)
    from lib import mir as M
    cg = M.CallGraph([core])
    roots = [n_ for n_ in (CORE + "values::Value::compare", CORE + "values::Value::equals") if n_ in core.hir]
    seen, work = set(roots), list(roots)
    while work:
        x_ = work.pop()
        for y_ in cg.out.get(x_, ()):
            if y_.startswith(CORE) and y_ in core.hir and y_ not in seen and "closure" not in y_:
                seen.add(y_)
                work.append(y_)
    for fn_ in sorted(seen):
        body = core.hir[fn_].get("body")
        if body is None:
            continue
        bad = []
        for z in H.walk(body):
            if H.kind(z) == "MethodCall" and z["name"] == "zip":
                r_ = H.strip(z["recv"])
                if H.kind(r_) == "MethodCall" and r_["name"] == "by_ref" and H.path_local(r_["recv"]) is not None:
                    left = H.path_local(r_["recv"])
                    end = z["sp"][4]
                    for u in H.walk(body):
                        if H.kind(u) == "MethodCall" and H.path_local(u.get("recv")) == left and u["sp"][3] > end and u["name"] != "by_ref":
                            bad.append("%s.%s() after %s.by_ref().zip(..) (%s)" % (left, u["name"], left, H.loc(u)))
        ctx.inst("C12.R7", fn_.replace(CORE, "") + "#zip-remainder", not bad, "; ".join(bad) or "no remainder is read from the left side of a by_ref zip", H.loc(body))


def scalar_primitives(ctx, rid, core):
    """the number / boolean / string rows of Value::equals and Value::compare are the IEEE / std primitives (shared with C11)"""
    EQ, CMP = arm_leaves(core, "equals"), arm_leaves(core, "compare")

    def single_value(tab, key):
        if key not in tab:
            return None
        lv = [x for x in tab[key][0] if x[0] in ("value", "return", "when", "unless", "loop-over")]
        return lv[0][1] if len(lv) == 1 and lv[0][0] == "value" else None

    for kind in ("Number", "Bool"):
        key = ("tup", (kind,), (kind,))
        e, c = single_value(EQ, key), single_value(CMP, key)
        ctx.inst(rid, "equals#%s" % kind, S.verdict_opt(e, ("bin", "Eq", L, R)), "equals: %s" % S.show(e) if e else "arm missing / not a single value", H.loc(EQ[key][1]["body"]) if key in EQ else None)
        ctx.inst(rid, "compare#%s" % kind, S.verdict_opt(c, ("call", "partial_cmp", L, R)), "compare: %s (IEEE: -0 == 0, NaN unordered)" % S.show(c) if c else "arm missing / not a single value", H.loc(CMP[key][1]["body"]) if key in CMP else None)
    key = ("tup", ("String",), ("String",))
    e, c = single_value(EQ, key), single_value(CMP, key)
    sl, sr = reified("as_string", L), reified("as_string", R)
    ctx.inst(rid, "equals#String", S.verdict_opt(e, ("bin", "Eq", sl, sr)), "equals: %s" % (S.show(e) if e else None), H.loc(EQ[key][1]["body"]) if key in EQ else None)
    ctx.inst(rid, "compare#String", S.verdict_opt(c, ("call", "partial_cmp", sl, sr)), "compare: %s" % (S.show(c) if c else None), H.loc(CMP[key][1]["body"]) if key in CMP else None)


def structural_equality(ctx, rid, core):
    """Value::equals compares lists element by element (same length) and records key by key (same size, order ignored), recursively
    through equals itself - not through compare (which has no answer for null, records, functions) and not through a printed form.
    Shared with C06 / C11, whose statements are phrased in terms of `==` / `.==` on structured values."""
    EQ = arm_leaves(core, "equals")

    def vals(lv):
        return [x for x in lv if x[0] in ("value", "return", "when", "unless", "loop-over")]

    # lists
    key = ("tup", ("List",), ("List",))
    ll, lr = reified("as_list", L), reified("as_list", R)
    if key in EQ:
        lv = vals(EQ[key][0])
        want = [("when", ("bin", "Ne", ("call", "len", ll), ("call", "len", lr)), ("return", ("lit", "false"))),
                ("loop-over", ("call", "zip", ll, lr)),
                ("when", ("un", "Not", ("try", ("call", "equals", ("loopvar",), ("loopvar",)))), ("return", ("lit", "false"))),
                ("value", ("lit", "true"))]
        v_list = True if S.verdict(tuple(lv), tuple(want)) is True else None
        if v_list is None:
            # another way of writing the walk (try_fold, all, iterator chains): positively wrong is only an equality answered through the
            # ordering (no answer for null / records / functions) or a printed form, one that never calls equals on the elements, or one
            # without an exact test of the two lengths (zip stops at the shorter list: a list would equal its extensions)
            body_l = EQ[key][1]["body"]
            calls_ = {x["name"] for x in H.walk(body_l) if H.kind(x) == "MethodCall"}
            exact_len = any(H.kind(x) == "Binary" and x["op"] in ("Ne", "Eq") and all(H.kind(H.strip(y)) == "MethodCall" and H.strip(y)["name"] == "len" for y in (x["l"], x["r"])) for x in H.walk(body_l))
            one_sided = any(H.kind(x) == "Binary" and x["op"] in ("Lt", "Gt", "Le", "Ge") and all(H.kind(H.strip(y)) == "MethodCall" and H.strip(y)["name"] == "len" for y in (x["l"], x["r"])) for x in H.walk(body_l))
            if calls_ & {"compare", "partial_cmp", "stringify", "stringify_internal", "to_string"} or "equals" not in calls_ or one_sided or (not exact_len and "zip" in calls_):
                v_list = False
        ctx.inst(rid, "equals#List", v_list, "equals on lists: length test `!=`, zip of both lists, first unequal element -> false, else true: %s" % (lv == want), H.loc(EQ[key][1]["body"]))
    else:
        ctx.inst(rid, "equals#List", None, "no (List, List) arm found in equals", None)
    key_r = ("tup", ("Record",), ("Record",))
    rl, rr = reified("as_record", L), reified("as_record", R)
    if key_r in EQ:
        lv = vals(EQ[key_r][0])
        ok = len(lv) == 4 and lv[0] == ("when", ("bin", "Ne", ("call", "len", rl), ("call", "len", rr)), ("return", ("lit", "false"))) and lv[1] == ("loop-over", rl) and lv[3] == ("value", ("lit", "true"))
        if ok:
            mt = lv[2][1]
            ok = mt[0] == "match" and mt[1] == ("call", "get", ("hoisted", rr), ("loopvar",))
            arms = dict(mt[2]) if ok else {}
            ok = ok and arms.get(("None",)) == ("ret", ("lit", "false")) and ("Some",) in arms
        # the Some arm: `if !a_value.equals(b_value)? { return false }`
        some_ok = False
        for n in H.walk(EQ[key_r][1]["body"]):
            if H.kind(n) == "If":
                c_ = H.strip(n["cond"])
                if H.kind(c_) == "Unary" and c_["op"] == "Not":
                    inner = H.strip(c_["e"])
                    if H.kind(inner) == "Try" and H.kind(H.strip(inner["e"])) == "MethodCall" and H.strip(inner["e"])["name"] == "equals":
                        rets = [x for x in H.walk(n["then"]) if H.kind(x) == "Ret"]
                        some_ok = bool(rets)
        v_rec = True if (ok and some_ok) else None
        body_r = EQ[key_r][1]["body"]
        if v_rec is None:
            # another way of writing the walk (`let Some(b) = other.get(key) else { return Ok(false) }`): positively wrong is only an
            # equality that goes through the ordering or a printed form, that never calls equals on the members, or that has no size test
            calls_ = {x["name"] for x in H.walk(body_r) if H.kind(x) == "MethodCall"}
            # the size test is `!=`: any one-sided comparison of the two sizes lets a record equal a proper extension of itself
            for x in H.walk(body_r):
                if H.kind(x) == "Binary" and x["op"] in ("Lt", "Gt", "Le", "Ge"):
                    sides = [H.strip(x["l"]), H.strip(x["r"])]
                    if all(H.kind(y) == "MethodCall" and y["name"] == "len" for y in sides):
                        v_rec = False
            # a key that is absent on the other side makes the records unequal: the looked-up value is never defaulted
            for x in H.walk(body_r):
                if H.kind(x) == "MethodCall" and x["name"] in ("unwrap_or", "unwrap_or_default", "unwrap_or_else") and any(H.kind(y) == "MethodCall" and y["name"] == "get" for y in H.walk(x["recv"])):
                    v_rec = False
            if calls_ & {"compare", "partial_cmp", "stringify", "stringify_internal", "to_string"} or "equals" not in calls_ or "len" not in calls_ or "get" not in calls_ and "contains_key" not in calls_:
                v_rec = False
        ctx.inst(rid, "equals#Record", v_rec, "equals on records: exact length test, every key of the left looked up in the right, missing/unequal -> false (key order ignored): %s/%s" % (ok, some_ok), H.loc(EQ[key_r][1]["body"]))
    else:
        ctx.inst(rid, "equals#Record", None, "no (Record, Record) arm found in equals", None)


def list_compare_rule(ctx, rid, core):
    """Value::compare on two lists (shared with C11: the ordering operators broadcast it and fail where it fails)"""
    CMP = arm_leaves(core, "compare")

    def vals(lv):
        return [x for x in lv if x[0] in ("value", "return", "when", "unless", "loop-over")]
    key = ("tup", ("List",), ("List",))
    ll, lr = reified("as_list", L), reified("as_list", R)
    if key not in CMP:
        ctx.inst(rid, "compare#List#first-difference", None, "no (List, List) arm found in compare", None)
        return
    lv = vals(CMP[key][0])
    body = CMP[key][1]["body"]
    okl = len(lv) == 3 and lv[0] == ("loop-over", ("call", "zip", ll, lr))
    mt = lv[1][1] if okl else None
    okm = bool(mt) and mt[0] == "match" and mt[1] == ("try", ("call", "compare", ("loopvar",), ("loopvar",)))
    if okm:
        arms = dict(mt[2])
        okm = set(arms) == {("Some", ("Equal",)), ("_",)} and arms[("_",)][0] == "ret"
    exact = bool(okl and okm)
    # positively wrong: elements are passed over by equality (equal but unordered elements - null, records, functions - would no
    # longer make the comparison fail), or the comparison of an element pair is not propagated with `?`
    uses_equals = any(H.kind(x) == "MethodCall" and x["name"] == "equals" for x in H.walk(body))
    cmp_calls = [x for x in H.walk(body) if H.kind(x) == "MethodCall" and x["name"] == "compare"]
    v1 = True if exact else (False if uses_equals or not cmp_calls else None)
    flow_note = ""
    if not exact and v1 is None:
        # any other shape: what the loop body does for each of the four answers of the element comparison
        outs = list_loop_outcomes(core, body)
        if outs is not None:
            some_ = lambda o: ("variant", "Ok", (("some", ("variant", o, ())),))
            want_ = {"Less": ("ret", some_("Less")), "Greater": ("ret", some_("Greater")), None: ("ret", ("variant", "Ok", (("none",),)))}
            wrong = [str(o) for o in ("Less", "Greater", None) if outs[o][0] != "unk" and outs[o] != want_[o]]
            if outs["Equal"][0] == "ret":
                wrong.append("Equal")
            if wrong:
                v1 = False
                flow_note = "; element comparison answering %s is not handled as the first difference (an unordered pair must end the comparison without an answer, an ordered one with that answer, an equal one moves on)" % wrong
            elif all(outs[o][0] != "unk" for o in outs) and outs["Equal"][0] in ("cont", "fall"):
                v1 = True
    ctx.inst(rid, "compare#List#first-difference", v1, "loop over zip(left, right); Some(Equal) continues, anything else is returned: %s%s%s" % (exact, "; elements are passed over with equals()" if uses_equals else "", flow_note), H.loc(body))
    fin = lv[2] if len(lv) == 3 else (lv[-1] if lv else None)
    want = ("value", ("call", "partial_cmp", ("call", "len", ll), ("call", "len", lr)))
    swapped = ("value", ("call", "partial_cmp", ("call", "len", lr), ("call", "len", ll)))
    okf = True if fin == want else (False if fin == swapped else None)
    ctx.inst(rid, "compare#List#length-tie-break", okf, "final value %s" % (S.show(fin[1]) if fin and len(fin) > 1 else None), H.loc(body))


def list_loop_outcomes(core, arm_body):
    """{answer of the element comparison: what the element loop does} for the (List, List) arm of compare; answers are Less / Equal /
    Greater / None (unordered); outcomes ('ret', term) / ('cont',) / ('fall',) / ('unk', why). None when the loop is not found."""
    import copy
    from lib import pe as PE_
    loops = [x for x in H.walk(arm_body) if H.kind(x) == "For" and any(H.kind(y) == "MethodCall" and y["name"] == "compare" for y in H.walk(x["body"]))]
    if len(loops) != 1:
        return None
    body = copy.deepcopy(loops[0]["body"])
    n_rep = [0]

    def repl(x):
        if isinstance(x, dict):
            if x.get("k") == "Try" and H.kind(H.strip(x["e"])) == "MethodCall" and H.strip(x["e"])["name"] == "compare":
                n_rep[0] += 1
                return {"k": "Path", "res": {"local": "__cmp"}, "ty": "", "sp": x.get("sp")}
            return {k_: repl(v_) for k_, v_ in x.items()}
        if isinstance(x, list):
            return [repl(v_) for v_ in x]
        return x
    body = repl(body)
    if n_rep[0] != 1:
        return None
    ev = PE_.PE(core, "blots_core::values::Value::")

    def conj(c):
        c = H.strip(c)
        if H.kind(c) == "Binary" and c.get("op") == "And":
            return conj(c["l"]) + conj(c["r"])
        return [c]

    def has_flow(x):
        return any(H.kind(y) in ("Ret", "Continue", "Break") for y in H.walk(x))

    def flow(n, env):
        n = H.strip(n)
        k = H.kind(n)
        if k == "Ret":
            return ("ret", ev.ev(n.get("e"), env)) if n.get("e") is not None else ("unk", "bare return")
        if k == "Continue":
            return ("cont",)
        if k == "Break":
            return ("break",)
        if k == "Block":
            e2 = dict(env)
            for s_ in n["stmts"]:
                if s_["k"] == "Let":
                    if s_.get("init") is not None:
                        if has_flow(s_["init"]) or s_.get("els") is not None:
                            return ("unk", "control flow in a let")
                        if ev.bind(s_["pat"], ev.ev(s_["init"], e2), e2) is not True:
                            for bn in H.pat_binds(s_["pat"]):
                                e2[bn] = PE_.unk("let pattern")
                elif s_["k"] in ("Expr", "Semi"):
                    r = flow(s_["e"], e2)
                    if r[0] != "fall":
                        return r
                else:
                    return ("unk", "statement")
            return flow(n["expr"], e2) if n.get("expr") is not None else ("fall",)
        if k == "If":
            e2 = dict(env)
            verdict = True
            for c in conj(n["cond"]):
                if H.kind(c) == "LetExpr":
                    r = ev.bind(c["pat"], ev.ev(c["init"], e2), e2)
                else:
                    t = ev.ev(c, e2)
                    r = True if t == ("bool", True) else (False if t == ("bool", False) else None)
                if r is False:
                    verdict = False
                    break
                if r is None:
                    return ("unk", "condition not decided")
            if verdict:
                return flow(n["then"], e2)
            return flow(n["else"], env) if n.get("else") is not None else ("fall",)
        if k == "Match":
            v = ev.ev(n["scrut"], env)
            for a in n["arms"]:
                e2 = dict(env)
                r = ev.bind(a["pat"], v, e2)
                if r is False:
                    continue
                if r is None:
                    return ("unk", "match on unknown")
                if a.get("guard") is not None:
                    g = ev.ev(a["guard"], e2)
                    if g == ("bool", False):
                        continue
                    if g != ("bool", True):
                        return ("unk", "guard not decided")
                return flow(a["body"], e2)
            return ("unk", "no arm")
        if has_flow(n):
            return ("unk", "control flow inside %s" % k)
        return ("fall",)

    out = {}
    for o in ("Less", "Equal", "Greater", None):
        val = ("some", ("variant", o, ())) if o else ("none",)
        out[o] = flow(body, {"__cmp": val})
    return out


def pe_unchecked(core, arm, variant, argsname):
    """({orderings on which the arm answers true}, answer when compare() says None) for an unchecked-comparison arm of any shape whose
    first statement binds the result of `args[0].compare(&args[1], ..)?`; None when it cannot be specialised"""
    from lib import pe as PE_
    blk = H.strip(arm["body"])
    if H.kind(blk) != "Block":
        return None
    bind, rest_from = None, None
    for i, st in enumerate(blk["stmts"]):
        if st["k"] == "Let" and H.kind(st["pat"]) == "Bind" and st.get("init") is not None:
            calls = [x for x in H.walk(st["init"]) if H.kind(x) == "MethodCall" and x["name"] == "compare"]
            if len(calls) == 1:
                c = calls[0]
                r, a0 = H.strip(c["recv"]), H.strip(c["args"][0]) if c.get("args") else None

                def idx_of(x):
                    x = H.strip(x)
                    if H.kind(x) == "Index" and H.path_local(x["e"]) == argsname and H.lit(x["i"]):
                        return H.lit(x["i"])["v"]
                    return None
                if idx_of(r) == "0" and a0 is not None and idx_of(a0) == "1":
                    bind, rest_from = st["pat"]["name"], i + 1
                    break
                return None
    if bind is None:
        return None
    rest = dict(blk, stmts=blk["stmts"][rest_from:])
    ev = PE_.PE(core, "blots_core::functions::BuiltInFunction::")
    true_set, none_val = set(), None
    for o in ("Less", "Equal", "Greater", None):
        val = ("some", ("variant", o, ())) if o else ("none",)
        t = ev.ev(rest, {bind: val, "self": ("variant", variant, ())})
        # Ok(Value::Bool(b))
        while t[0] == "variant" and t[1] in ("Ok", "Bool") and len(t[2]) == 1:
            t = t[2][0]
        if t[0] != "bool":
            return None
        if o is None:
            none_val = t[1]
        elif t[1]:
            true_set.add(o)
    return true_set, none_val
