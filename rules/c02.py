"""C02 — evaluation is deterministic and free of side effects on values (DESIGN §4 C02)."""
import re
from lib import hir as H
from lib import mir as M
from lib.facts import CheckerError

NEED = ("dev",)
NEED_THOROUGH = ()

CORE = "blots_core::"
EVAL_ROOTS = [CORE + "expressions::evaluate_ast", CORE + "functions::FunctionDef::call", CORE + "functions::BuiltInFunction::call"]
ORDER_ROOTS = EVAL_ROOTS + [
    CORE + "values::SerializableValue::from_value", CORE + "values::SerializableValue::to_value", CORE + "values::SerializableValue::from_json",
    CORE + "values::SerializableValue::to_json", CORE + "values::Value::stringify", CORE + "expressions::validate_portable_value",
    CORE + "formatter::format_expr", CORE + "ast_to_source::expr_to_source", CORE + "ast_to_source::expr_to_source_with_scope",
    "blots::evaluate_source", "blots::write_outputs", "blots::parse_json_inputs", "blots::main",
    "blots_wasm::evaluate", "blots_wasm::evaluate_inline_expressions", "blots_wasm::format_blots",
]
# callees that iterate over an argument they are handed (the hash order becomes the order of what they build)
ITER_CONSUMERS = ("extend", "from_iter", "append", "chain", "zip", "extend_from_slice", "from", "into")

IMPURE_PREFIX = ("std::time::", "std::io::", "std::env::", "std::fs::", "std::process::", "std::thread::", "std::net::", "fastrand::",
                 "core::time::Duration::as_", "std::sys::", "std::os::", "rand::", "std::collections::hash::map::RandomState")

# (callee pattern, enclosing function, arm) -> reason it is allowed (the property's own exception list / not observable in values)
ALLOWED_IMPURE = [
    (r"^std::time::SystemTime::(now|duration_since)$", CORE + "functions::BuiltInFunction::call", "TimeNow", "time_now is explicitly impure"),
    (r"^core::time::Duration::as_secs_f64$", CORE + "functions::BuiltInFunction::call", "TimeNow", "time_now is explicitly impure"),
    (r"^std::io::stdio::_eprint$", CORE + "functions::BuiltInFunction::call", "Print", "print is explicitly impure (stderr only)"),
    (r"^fastrand::Rng::(with_seed|f64)$", CORE + "functions::BuiltInFunction::call", "Random", "seeded generator: a pure function of its argument"),
    (r"^std::time::Instant::now$", CORE + "functions::FunctionDef::call", None, "profiling timestamps, stored in FUNCTION_CALLS only"),
]
ALLOWED_STATICS = {
    (CORE + "functions::FUNCTION_CALLS", CORE + "functions::FunctionDef::call"): "profiling log, written only",
    (CORE + "heap::CONSTANTS", None): "immutable table (LazyLock of literals)",
    (CORE + "precedence::PRECEDENCE_TABLE", None): "immutable table",
    (CORE + "precedence::PRATT", None): "immutable parser built from the table",
    (CORE + "functions::BUILTIN_FUNCTION_NAMES", None): "immutable table",
    (CORE + "ast_to_source::RESERVED_WORDS", None): "immutable table",
}

HASH_ITER = re.compile(r"std::collections::hash::(map::HashMap|set::HashSet)::<.*>::(iter|iter_mut|keys|values|values_mut|into_keys|into_values|drain|into_iter)$|"
                       r"^<&?(mut )?std::collections::hash::(map::HashMap|set::HashSet)<.*> as core::iter::traits::collect::IntoIterator>::into_iter$|"
                       r"^<std::collections::hash::(map::HashMap|set::HashSet)<.*> as core::iter::traits::collect::IntoIterator>::into_iter$")

# order-sensitive uses of a hash-ordered iterator that were reviewed by hand (one symbol, one reason)
REVIEWED_HASH_SINKS = {
    CORE + "values::SerializableValue::from_value": "captured scope collected into an IndexMap that is used only for by-name lookup by expr_to_source_with_scope and compared order-insensitively",
    CORE + "values::Value::stringify": "same: scope map used only for by-name inlining",
    CORE + "stats::ProfilingSummary::print_summary": "--profile report on stderr: wall-clock timings sorted by total time, not part of any program result",
}


def is_hash_ty(t):
    t = t.lstrip("&").replace("mut ", "")
    return t.startswith("std::collections::hash::map::HashMap<") or t.startswith("std::collections::hash::set::HashSet<")


def run(ctx):
    core, cli, wasm = ctx.core, ctx.cli, ctx.wasm
    crates = [core, cli, wasm]
    cg = M.CallGraph(crates)
    ctx.not_decided += ["IEEE determinism of floating-point primitives (assumed)", "behaviour of third-party crates across processes"]
    reach = cg.reachable_from(EVAL_ROOTS)
    local = sorted(n for n in reach if n in cg.fns)
    ctx.units["functions_reachable_from_evaluator"] = len(local)

    # ---------------- R5 evaluating an expression leaves the enclosing bindings alone
    from rules import c03 as c03_
    c03_.fresh_child_scopes(ctx, "C02.R5", core, cg,
                            doc="a do-block and a function body bind their names in a scope created for them (Environment::extend / extend_with in the same arm), never in the enclosing one: evaluating the same expression twice, or once under a new name, sees the same bindings")

    # ---------------- R9 an operand is evaluated whether or not its value ends up being needed
    ctx.rule("C02.R9", "binding a sub-expression to a name and using the name gives the same result: both operands of a binary operator are evaluated before anything is answered (a right operand skipped when the left one decides `&&` / `||` fails - or prints - only in the let-abstracted program)", floor=1)
    from rules import c11 as c11_
    c11_.both_operands_first(ctx, "C02.R9", core)

    # ---------------- R8 the same piped bytes are the same inputs
    from rules import c06 as c06_
    ctx.rule("C02.R8", "the inputs a run sees are a function of the bytes piped to it, not of how the producer wrote them: every non-interactive read of stdin is read_to_string / read_to_end on stdin itself (a single Read::read returns whatever the first pipe write delivered)", floor=1)
    c06_.whole_stdin_rule(ctx, "C02.R8", cli, declare=False)

    # ---------------- R6 an operator's result depends on the operand values, not on how the operands were written
    ctx.rule("C02.R6", "the operator evaluator looks at its operands' values only: it never matches on the syntactic form of an operand expression (a literal exponent taking a different code path than a variable holding the same number makes `x ^ 3` differ from `n = 3; x ^ n`)", floor=1)
    operand_syntax_rule(ctx, "C02.R6", core)

    # ---------------- R7 the --output file holds this run's result and nothing of an earlier one
    from rules import c06 as c06_
    c06_.output_file_rule(ctx, "C02.R7", cli)

    # ---------------- R1 effects inventory
    ctx.rule("C02.R1", "every impure primitive (time, io, env, fs, process, thread, unseeded rng, mutable statics) reachable from the evaluator is one of the allowed items, pinned to its function and match arm", floor=8)
    bic_name = CORE + "functions::BuiltInFunction::call"
    bic = M.Fn(core.mir_fn(bic_name), bic_name)
    regions, _ = M.variant_regions(bic, CORE + "functions::BuiltInFunction", root_param=1)
    BA = M.BuiltinArms(core, cg)
    n_imp = 0
    rev = {}
    for a_, bs_ in cg.out.items():
        for b_ in bs_:
            rev.setdefault(b_, set()).add(a_)

    def owner(fname, depth=0):
        """a private helper that only one function (of the same impl / module) calls belongs to that function: its effects are that
        function's effects (`FunctionDef::record_call`, split out of `FunctionDef::call`)"""
        if depth > 3:
            return fname
        cs = {c for c in rev.get(fname, ()) if c != fname and "::tests::" not in c}
        hf = core.hir.get(fname)
        if len(cs) == 1 and hf is not None and hf.get("vis") != "pub":
            c = next(iter(cs))
            if c.rsplit("::", 1)[0] == fname.rsplit("::", 1)[0]:
                return owner(c, depth + 1)
        return fname
    for n in local:
        f = cg.fns[n]
        for bi, b in enumerate(f["blocks"]):
            t = b["t"]
            if t["k"] == "call" and "fn" in t["func"]:
                r = t["func"]["fn"].get("res", t["func"]["fn"]["def"])
                if r.startswith(IMPURE_PREFIX):
                    n_imp += 1
                    arm = BA.arm(n, bi)
                    cn_ = BA.canonical(owner(n))
                    ok, why = False, "not in the allowed list"
                    for pat, fn_, arm_, reason in ALLOWED_IMPURE:
                        if re.match(pat, r) and cn_ == fn_ and (arm_ is None or arm == [arm_]):
                            ok, why = True, reason
                            break
                    ctx.inst("C02.R1", "%s->%s%s" % (cn_.replace(CORE, ""), r, "[" + ",".join(arm) + "]" if arm else ""), ok,
                             "%s called from %s%s: %s" % (r, n, " in arm %s" % arm if arm else "", why), "%s:%d" % (t["sp"][0], t["sp"][1]))
            for s in b["s"]:
                if s["k"] == "assign":
                    for m_ in re.findall(r"'static': '([^']+)'", str(s["rv"])):
                        n_imp += 1
                        ok = (m_, n) in ALLOWED_STATICS or (m_, None) in ALLOWED_STATICS or (m_, owner(n)) in ALLOWED_STATICS
                        why_st = None
                        if not ok:
                            # any other static of the workspace that cannot change after initialisation: not `static mut`, no interior mutability
                            for cr_ in crates:
                                st_ = cr_.statics.get(m_)
                                if st_ is not None and st_.get("mut") is False and not any(x in st_.get("ty", "") for x in ("Mutex", "RefCell", "Atomic", "Cell<", "RwLock", "UnsafeCell", "OnceCell", "OnceLock")):
                                    ok, why_st = True, "immutable static of type %s" % st_.get("ty", "")[:80]
                        # closures of an allowed function count as that function
                        if not ok:
                            par = f.get("parent")
                            ok = par is not None and ((m_, par) in ALLOWED_STATICS)
                        ctx.inst("C02.R1", "%s@static:%s" % (n.replace(CORE, ""), m_.replace(CORE, "")), ok,
                                 "static %s read in %s: %s" % (m_, n, ALLOWED_STATICS.get((m_, n)) or ALLOWED_STATICS.get((m_, None)) or why_st or "not an allowed static"), "%s:%d" % (s["sp"][0], s["sp"][1]))
    process_wide_setters(ctx, "C02.R1", crates)
    # the seeded generator takes its seed from the argument
    for mname, (mfn, _r) in sorted(BA.members.items()):
        for b in mfn.calls_to("fastrand::Rng::with_seed"):
            roots = mfn.trace(mfn.term(b)["args"][0])
            from_arg = any(r[0] == "call" and r[1].endswith("Value::as_number") for r in roots) or any(r[0] == "param" and r[1] == 2 for r in roots)
            ctx.inst("C02.R1", "Random#seed", from_arg, "seed provenance %s" % [r[:2] for r in roots], mfn.loc(b))
    # mutable statics of the crate: every `static` with interior mutability must be in the allowed table
    for sname, st in core.statics.items():
        if st.get("kind") != "Static":
            continue
        ty = st.get("ty", "")
        if any(x in ty for x in ("Mutex", "RefCell", "Atomic", "Cell<", "RwLock")):
            used_by = sorted(n for n in local for b in cg.fns[n]["blocks"] for s in b["s"] if s["k"] == "assign" and sname in str(s["rv"]))
            ok = all((sname, u) in ALLOWED_STATICS or (sname, owner(u)) in ALLOWED_STATICS for u in used_by)
            ctx.inst("C02.R1", "mutable-static:%s" % sname.replace(CORE, ""), ok, "type %s; used from evaluator-reachable functions %s" % (ty, used_by), H.loc(st))

    run_identity(ctx, cg, local, crates)

    heap_write_once(ctx, "C02.R2", core, crates, cg)

    # ---------------- R3 hash-order sinks
    ctx.rule("C02.R3", "every iteration over a std HashMap/HashSet in code reachable from evaluation, serialisation, formatting and the CLI output path ends in an order-insensitive sink (hash container, any/all/contains, count), or is a reviewed exception", floor=3)
    oreach = cg.reachable_from(ORDER_ROOTS)
    # wrappers: local functions that return a hash iterator
    sources = set()
    for n, f in cg.fns.items():
        hf = None
        for cr in crates:
            hf = hf or cr.hir.get(n)
        if hf is None:
            continue
        if hf.get("output", "").startswith("impl ") and "Iterator" in hf.get("output", ""):
            fn = M.Fn(f, n)
            if fn.calls_matching(lambda d: bool(HASH_ITER.search(d))):
                sources.add(n)
    ctx.units["hash_iterator_wrappers"] = sorted(sources)
    n_sites = 0
    for n in sorted(x for x in oreach if x in cg.fns):
        if n in sources:
            continue
        par = cg.fns[n].get("parent") or n
        hf = None
        for cr in crates:
            hf = hf or cr.hir.get(par)
        if hf is None:
            continue
        if cg.fns[n].get("parent"):
            continue  # closures are visited through their parent's HIR
        for node in H.walk(hf["body"]):
            src = None
            if H.kind(node) == "MethodCall":
                d = node.get("def") or ""
                if is_hash_ty(node.get("recv_ty", "")) and node["name"] in ("iter", "iter_mut", "into_iter", "keys", "values", "values_mut", "into_keys", "into_values", "drain"):
                    src = d + " on " + node.get("recv_ty", "")[:60]
                elif d in sources:
                    src = d
            if H.kind(node) == "For":
                it = H.strip(node["iter"])
                if is_hash_ty(it.get("ty", "")) :
                    src = "for-loop over " + it.get("ty", "")[:40]
            handed = None
            if src is None and H.kind(node) in ("MethodCall", "Call"):
                # a hash container handed (by value or reference) to a callee that iterates over it: x.extend(hash_map)
                cname = node.get("name") or H.last(node.get("def") or "")
                if cname in ITER_CONSUMERS and any(is_hash_ty(H.strip(a).get("ty", "")) for a in node.get("args", [])):
                    if H.kind(node) == "MethodCall" and node["name"] in ("from", "into"):
                        pass
                    else:
                        handed = cname
                        src = "hash container handed to %s()" % cname
            if src is None:
                continue
            n_sites += 1
            if handed is not None:
                rt = node.get("recv_ty", "") if H.kind(node) == "MethodCall" else node.get("ty", "")
                sink, ok = ("%s() on %s" % (handed, rt[:60]), is_hash_ty(rt))
            else:
                sink, ok = classify_sink(hf["body"], node)
            if not ok and n in REVIEWED_HASH_SINKS:
                ctx.inst("C02.R3", "%s<-%s#%d" % (n.replace(CORE, ""), node.get("name", "for"), n_sites), True, "order-sensitive sink (%s), reviewed exception: %s" % (sink, REVIEWED_HASH_SINKS[n]), H.loc(node))
            else:
                ctx.inst("C02.R3", "%s<-%s#%d" % (n.replace(CORE, ""), node.get("name", "for"), n_sites), ok, "hash-ordered iteration (%s) ends in %s" % (src[-60:], sink), H.loc(node))
    ctx.units["hash_iteration_sites"] = n_sites
    # positive control: the rule must see the known insensitive site in validate_portable_value
    seen_ctrl = any(i["rule"] == "C02.R3" and "validate_portable_value" in i["key"] for i in ctx.instances)
    ctx.inst("C02.R3", "control#validate_portable_value", seen_ctrl, "the scope iteration in validate_portable_value (inserting into a HashSet) was enumerated: %s" % seen_ctrl, None)


def operand_syntax_rule(ctx, rid, core):
    """the operator evaluator never looks at the syntactic form of an operand (shared with C05: a captured value is emitted as a
    literal, so a literal-only code path changes what the reloaded function does)"""
    n_ops = 0
    for fname in sorted(core.hir):
        if not fname.startswith(CORE + "expressions::evaluate_binary_op") or core.hir[fname].get("body") is None:
            continue
        hf = core.hir[fname]
        ast_params = {bn for p_, t_ in zip(hf.get("params", []), hf.get("inputs", [])) if "ast::Spanned<blots_core::ast::Expr>" in t_ for bn in H.pat_binds(p_)}
        looks = []
        for x in H.walk(hf["body"]):
            pat, scr = None, None
            if H.kind(x) == "LetExpr":
                pat, scr = x["pat"], x["init"]
            elif H.kind(x) == "Match":
                scr = x["scrut"]
                pat = {"k": "Or", "pats": [a_["pat"] for a_ in x["arms"]]}
            if pat is None:
                continue
            if any("ast::Expr::" in v_ for v_ in H.pat_variants(pat)) and any(H.kind(y) == "Field" and y["name"] == "node" and H.path_local(y["e"]) in ast_params for y in H.walk(scr)):
                looks.append(H.loc(x))
        n_ops += 1
        ctx.inst(rid, "%s#operand-syntax" % fname.replace(CORE, ""), not looks, "operand expressions of type SpannedExpr: %s; places where the result depends on an operand's syntactic form: %s" % (sorted(ast_params), looks or "none"), H.loc(hf["body"]))
    if n_ops == 0:
        ctx.inst(rid, "operator-evaluator", None, "no evaluate_binary_op* function found", None)



def process_wide_setters(ctx, rid, crates):
    """no call of a process-wide setter of the libraries underneath (shared with C05: a parser call limit refuses large emitted sources)"""
    # process-wide switches of the libraries underneath: whoever flips one changes every later evaluation in the process (a parser call
    # limit set while loading one input caps every later parse) - nothing in the three crates may call them
    GLOBAL_SETTERS = re.compile(r"^(pest::(parser_state::)?set_call_limit|pest::(parser_state::)?set_error_detail|std::env::(set_var|remove_var|set_current_dir)|std::panic::(set_hook|take_hook))")
    n_gs = 0
    for cr_ in crates:
        for n_, f_ in sorted(cr_.mir.items()):
            if "::tests::" in n_:
                continue
            fn_ = M.Fn(f_, n_)
            for b_ in fn_.call_blocks():
                c_ = fn_.callee(b_) or ""
                if GLOBAL_SETTERS.match(c_):
                    n_gs += 1
                    ctx.inst(rid, "%s->%s" % (n_.replace(CORE, ""), c_), False, "%s changes process-wide state: evaluations after this call behave differently from evaluations before it" % c_, fn_.loc(b_))
    ctx.inst(rid, "process-wide-switches#none", n_gs == 0, "calls of process-wide setters (pest call limit / error detail, environment, panic hook) in the three crates: %d" % n_gs, None)


def run_identity(ctx, cg, local, crates, rid="C02.R4", doc=None):
    """R4: heap-pointer identity / order must not decide results"""
    ctx.rule(rid, doc or "no evaluator-reachable code compares Values (or heap pointers) by their derived PartialEq/PartialOrd - heap indices depend on allocation order - except equality against the constant Value::Null", floor=3)
    n = 0
    VAL_TYS = ("blots_core::values::Value", "blots_core::heap::ListPointer", "blots_core::heap::StringPointer", "blots_core::heap::RecordPointer",
               "blots_core::heap::LambdaPointer", "blots_core::heap::IterablePointer")

    def is_val(t):
        t = (t or "").lstrip("&").replace("mut ", "")
        # a Value itself, or a container / definition holding Values (a captured scope, a list of elements): its derived == is heap-index identity element by element
        return t in VAL_TYS or bool(re.search(r"[<, (]&?(blots_core::values::(Value|LambdaDef|CapturedScope)|blots_core::heap::\w+Pointer)[>, )]", t)) or t in ("blots_core::values::LambdaDef", "blots_core::values::CapturedScope")

    def is_null_const(x):
        x = H.strip(x)
        return H.kind(x) == "Path" and (x["res"].get("def") or "").endswith("values::Value::Null")

    # a Value's (or heap pointer's) own Display / Debug shows its heap index (`list@12`): turning one into text on the evaluation path
    # makes the text depend on what was allocated before
    n_disp = 0
    for name in local:
        fn = M.Fn(cg.fns[name], name)
        for b in fn.call_blocks():
            c_ = fn.callee(b) or ""
            at_ = fn.term(b).get("argtys") or []
            if ("ToString>::to_string" in c_ or c_.endswith("::to_string") or "Argument::<'_>::new_display" in c_ or "Argument::<'_>::new_debug" in c_) and at_ and is_val(at_[0]):
                n_disp += 1
                ctx.inst(rid, "%s#display-of-value[%d]" % (name.replace(CORE, ""), n_disp), False, "a %s is turned into text through its own Display / Debug (%s): lists, records, strings and functions print their heap index" % (at_[0], c_.split("::")[-1]), fn.loc(b))
    ctx.inst(rid, "display-of-value#none", n_disp == 0, "%d evaluator-reachable functions scanned; Values / heap pointers formatted through their own Display: %d" % (len(local), n_disp), None)
    # ordering: every form is a call in MIR
    for name in local:
        if "as core::cmp::Partial" in name:
            continue  # the derived impls themselves
        fn = M.Fn(cg.fns[name], name)
        k = 0
        for b in fn.call_blocks():
            r = fn.callee(b) or ""
            m_ = re.match(r"^<blots_core::(values::Value|heap::\w+Pointer) as core::cmp::PartialOrd>::(\w+)$", r)
            if m_:
                n += 1
                ctx.inst(rid, "%s#%s[%d]" % (name.replace(CORE, ""), m_.group(2), k), False,
                         "%s orders heap indices: the result depends on allocation order (binding a sub-expression to a name changes it)" % r, fn.loc(b))
                k += 1
    # equality: read from the HIR so that the constant operand is visible
    seen_parents = set()
    for name in local:
        par = cg.fns[name].get("parent") or name
        if par in seen_parents or "as core::cmp::Partial" in par:
            continue
        seen_parents.add(par)
        hf = None
        for cr in crates:
            hf = hf or cr.hir.get(par)
        if hf is None:
            continue
        k = 0
        for x in H.walk(hf["body"]):
            ops = None
            if H.kind(x) == "Binary" and x["op"] in ("Eq", "Ne", "Lt", "Le", "Gt", "Ge"):
                ops = (x["op"], x["l"], x["r"])
            elif H.kind(x) == "MethodCall" and x["name"] in ("eq", "ne", "lt", "le", "gt", "ge") and x["args"]:
                ops = (x["name"].capitalize(), x["recv"], x["args"][0])
            if ops is None:
                continue
            op, l, r = ops
            if not (is_val(H.strip(l).get("ty")) or is_val(H.strip(r).get("ty")) or is_val(l.get("ty")) or is_val(r.get("ty"))):
                continue
            n += 1
            ok = op in ("Eq", "Ne") and (is_null_const(l) or is_null_const(r))
            ctx.inst(rid, "%s#%s[%d]" % (par.replace(CORE, ""), op, k), ok,
                     "derived %s on Value operands; one operand is the constant Value::Null: %s" % (op, ok), H.loc(x))
            k += 1
    ctx.units["identity_comparison_sites"] = n


def parents(root):
    """child id -> parent node, for upward walks"""
    out = {}
    st = [root]
    while st:
        x = st.pop()
        if isinstance(x, dict):
            for v in x.values():
                if isinstance(v, (dict, list)):
                    out[id(v)] = x
                    st.append(v)
        elif isinstance(x, list):
            for v in x:
                if isinstance(v, (dict, list)):
                    out[id(v)] = x
                    st.append(v)
    return out


def classify_sink(body, node):
    """(description, order_insensitive?) of what consumes the iteration at `node`"""
    par = parents(body)
    if H.kind(node) == "For":
        # every statement of the loop body must be an insert/extend into a hash container, or a pure test
        sens = []
        for x in H.walk(node["body"]):
            if H.kind(x) == "MethodCall" and x["name"] in ("push", "push_str", "insert", "extend", "write_str", "entry"):
                if not is_hash_ty(x.get("recv_ty", "")):
                    sens.append("%s on %s" % (x["name"], x.get("recv_ty", "?")[:50]))
            if H.kind(x) in ("Ret", "Break") and x.get("e") is not None:
                sens.append("early exit selecting an element")
            if H.kind(x) == "Macro" and x["name"] in ("write", "writeln", "print", "println", "format"):
                sens.append("text output")
        return ("loop body: " + (", ".join(sens) if sens else "hash-container inserts / tests only"), not sens)
    # method chain: climb while we are the receiver of a method call
    cur = node
    chain = []
    for _ in range(20):
        p = par.get(id(cur))
        # skip list containers
        while isinstance(p, list):
            p = par.get(id(p))
        if p is None:
            break
        if H.kind(p) == "MethodCall" and p.get("recv") is cur:
            chain.append(p)
            cur = p
            continue
        if H.kind(p) in ("Try", "AddrOf"):
            cur = p
            continue
        break
    names = [c["name"] for c in chain]
    last = chain[-1] if chain else None
    if last is not None and last["name"] in ("any", "all", "count", "len", "contains", "contains_key", "is_empty"):
        return ("%s()" % last["name"], True)
    if last is not None and last["name"] in ("collect", "extend"):
        t = last.get("ty", "")
        inner = t
        for pre in ("core::result::Result<", "core::option::Option<"):
            if inner.startswith(pre):
                inner = inner[len(pre):]
        return ("collect into %s" % t[:70], is_hash_ty(inner))
    # bound to a variable and looped over later, or passed on: not recognised
    p = par.get(id(cur))
    while isinstance(p, list):
        p = par.get(id(p))
    if H.kind(p) in ("MethodCall", "Call") and any(a is cur for a in p.get("args", [])):
        # the iterator is handed to a consumer: target.extend(iter) / X::from_iter(iter)
        cname = p.get("name") or H.last(p.get("def") or "")
        rt = p.get("recv_ty", "") if H.kind(p) == "MethodCall" else p.get("ty", "")
        if cname in ITER_CONSUMERS:
            return ("%s() on %s" % (cname, rt[:60]), is_hash_ty(rt))
    if H.kind(p) == "For" and p.get("iter") is cur:
        return classify_sink(body, p)
    return ("unrecognised consumer (%s)" % (names or H.kind(p)), False)


def heap_write_once(ctx, rid, core, crates, cg, doc=None):
    """heap cells are write-once (shared with C03 / C04, where a renamed lambda changes what a bound name does)"""
    # ---------------- R2 heap cells are write-once
    ctx.rule(rid, doc or "heap cells are never removed or overwritten: Heap's cell vector is private and only pushed; reify_mut has no callers; every caller of Heap::get_mut writes only LambdaDef.name, and only when it is None", floor=6)
    heap_t = core.types.get(CORE + "heap::Heap")
    if heap_t is None:
        raise CheckerError("type Heap missing")
    for fld in heap_t["variants"][0]["fields"]:
        ctx.inst(rid, "Heap.%s#private" % fld["name"], not fld["pub"], "field %s: %s, pub=%s" % (fld["name"], fld["ty"], fld["pub"]), H.loc(heap_t))
    mutators = ("push", "get_mut", "len", "get", "iter", "is_empty", "last", "first", "as_slice", "capacity", "reserve", "with_capacity")
    for name, hf in sorted(core.hir.items()):
        if not name.startswith(CORE + "heap::Heap::"):
            continue
        if not hf.get("inputs") or not hf["inputs"][0].startswith("&mut blots_core::heap::Heap"):
            continue
        bad = []
        for n in H.walk(hf["body"]):
            if H.kind(n) == "MethodCall":
                recv = H.strip(n["recv"])
                if H.kind(recv) == "Field" and H.path_local(recv["e"]) == "self" and n["name"] not in mutators:
                    bad.append(n["name"])
            if H.kind(n) in ("Assign", "AssignOp"):
                l = H.strip(n["l"])
                if any(H.kind(x) == "Field" and H.path_local(x["e"]) == "self" for x in H.walk(l)):
                    bad.append("assignment to self.*")
        ctx.inst(rid, "%s#push-only" % name.replace(CORE, ""), not bad, "operations on the cell vector other than push/get: %s" % bad, H.loc(hf["body"]))
    # the one in-place write gives a function its name: that happens where a name is bound (an assignment), nowhere else -
    # a function literal stored in a record field or passed as an argument stays anonymous, as its let-abstracted twin would be
    from lib import scope as scope_, sig as S_
    n_nm = 0
    for fname in sorted(core.hir):
        if not fname.startswith(CORE + "expressions::") or "::tests::" in fname or core.hir[fname].get("body") is None:
            continue
        try:
            fb = core.hir_fn(fname)
        except CheckerError:
            continue
        for n, e, g in scope_.sites(fb["body"], lambda n: H.kind(n) == "MethodCall" and n.get("def") == CORE + "heap::Heap::get_mut", S_.Env()):
            lab = None
            for gg in g:
                pat = None
                if gg[0] == "arm":
                    pat = gg[1]["pat"]
                elif gg[0] == "if" and gg[2] is True:
                    for c in H.walk(gg[1]):
                        if H.kind(c) == "LetExpr" and any("ast::Expr::" in v for v in H.pat_variants(c["pat"])):
                            pat = c["pat"]
                if pat is not None:
                    vs = sorted(H.last(v) for v in H.pat_variants(pat) if "ast::Expr::" in v)
                    if vs:
                        lab = vs
            if lab is None and any(fname in cg.out.get(c_, ()) for c_ in cg.fns if c_ != fname and c_.startswith(CORE + "expressions::")):
                continue  # a helper of the evaluator: judged where it is called (its body is looked through there)
            n_nm += 1
            ctx.inst(rid, "%s#naming-site[%s]" % (fname.replace(CORE, ""), "|".join(lab) if lab else "?"), None if lab is None else lab == ["Assignment"],
                     "a heap cell is written in place while evaluating %s (only an assignment gives a function its name)" % (lab or "an unidentified construct"), H.loc(n))
    rm = M.callers_of(crates, lambda d: d.endswith("::reify_mut"))
    rm = {k: v for k, v in rm.items() if not k.endswith("::reify_mut")}
    ctx.inst(rid, "reify_mut#no-callers", not rm, "callers of reify_mut: %s" % sorted(rm), None)
    gm = M.callers_of(crates, lambda d: d == CORE + "heap::Heap::get_mut")
    if not gm:
        ctx.inst(rid, "get_mut#callers", True, "Heap::get_mut has no callers", None)
    for name, bbs in sorted(gm.items()):
        fn = M.Fn(cg.fns[name], name)
        for idx, b in enumerate(bbs):
            dest = fn.term(b)["dest"]["l"]
            writes = []
            for wi, wb in enumerate(fn.blocks):
                if wb.get("cleanup"):
                    continue  # drop-and-replace repeats the store on the unwind path
                for s in wb["s"]:
                    if s["k"] != "assign" or "*" not in s["lhs"]["p"]:
                        continue
                    roots = fn.trace(s["lhs"])
                    if any(r[0] == "call" and r[1] == CORE + "heap::Heap::get_mut" and r[2] == b for r in roots):
                        fields = [p for r in roots for p in r[3] if not p.startswith("@") and not p.isdigit()]
                        writes.append((wi, fields[-1] if fields else "?"))
                t = wb["t"]
                if t["k"] == "drop" and "*" in t["place"]["p"]:
                    pass
            wfields = sorted({w[1] for w in writes})
            guarded = True
            for wi, fld in writes:
                g = False
                for cb in fn.calls_matching(lambda d: d.endswith("Option::<T>::is_none")):
                    aroots = fn.trace(fn.term(cb)["args"][0])
                    if not any(r[0] == "call" and r[1] == CORE + "heap::Heap::get_mut" and r[2] == b and "name" in r[3] for r in aroots):
                        continue
                    e = None
                    t = fn.term(cb)
                    sw = fn.switch_on_local(t["dest"]["l"], t["t"])
                    if sw is None:
                        continue
                    st = sw[1]
                    zero = [x[1] for x in st["targets"] if x[0] == "0"]
                    if zero and fn.dominates(cb, wi) and wi in fn.reachable(st["otherwise"]) and wi not in fn.reachable(zero[0]):
                        g = True
                guarded = guarded and g
            if not writes and name.endswith("::reify_mut"):
                # forwarding accessor: hands the &mut on; decided by "reify_mut has no callers" above
                ctx.inst(rid, "%s#get_mut[%d]" % (name.replace(CORE, ""), idx), not rm, "forwards the &mut to its caller; reify_mut has no callers: %s" % (not rm), fn.loc(b))
                continue
            ok = set(wfields) <= {"name"} and guarded and bool(writes)
            ctx.inst(rid, "%s#get_mut[%d]" % (name.replace(CORE, ""), idx), ok,
                     "writes through the returned &mut: fields %s; each dominated by name.is_none(): %s" % (wfields, guarded), fn.loc(b))
