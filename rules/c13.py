"""C13 — via / where / into agree with map / filter / application for every function (DESIGN §4 C13)."""
from lib import hir as H
from lib import sig as S
from lib import scope
from lib.facts import CheckerError

NEED = ("dev",)
FCALL = "blots_core::functions::FunctionDef::call"
BINOP = "blots_core::expressions::evaluate_binary_op_ast"
BCALL = "blots_core::functions::BuiltInFunction::call"
EVAL = "blots_core::expressions::evaluate_ast"


def strip_wrappers(t):
    """look through `?`, unwrap, hoisting"""
    while isinstance(t, tuple) and t:
        if t[0] in ("try", "hoisted"):
            t = t[1]
        elif t[0] == "call" and t[1] in ("unwrap", "expect", "ok_or_else", "ok_or"):
            t = t[2]
        else:
            break
    return t


def deep_unhoist(t):
    if not isinstance(t, tuple):
        return t
    if t and t[0] == "hoisted":
        return deep_unhoist(t[1])
    return tuple(deep_unhoist(x) for x in t)


def context_of(guards, fn_name):
    """which operator / built-in arm a call site belongs to: innermost arm over BinaryOp / BuiltInFunction"""
    label = None
    for g in guards:
        if g[0] == "arm":
            vs = [v for v in H.pat_variants(g[1]["pat"]) if "ast::BinaryOp::" in v or "functions::BuiltInFunction::" in v]
            if vs:
                label = "|".join(H.last(v) for v in vs)
    return label


def run(ctx):
    core = ctx.core
    S.TEMPLATES = None
    S.INLINE = S.default_inline(core)
    ctx.not_decided += ["the fold law for reduce beyond accumulator threading", "behaviour of a given callback (only how it is called)"]
    sites = []
    for fn in (BINOP, BCALL, EVAL):
        f = core.hir_fn(fn)
        env = S.Env()
        for p in f["params"]:
            for bn in H.pat_binds(p):
                env.roles[bn] = ("param", bn)
        for n, e, g in scope.sites(f["body"], lambda n: H.kind(n) == "MethodCall" and n.get("def") == FCALL, env):
            sites.append((fn, n, e, g))
    ctx.units["FunctionDef::call sites"] = len(sites)

    # ---------------- R5 the arity test that selects the calling protocol
    ctx.rule("C13.R5", "whether a callback receives the index is decided by FunctionArity::can_accept(n), which accepts exactly n == k / n >= min / min <= n <= max: a function that declares the index as an optional parameter receives it", floor=3)
    from rules import c04
    c04.can_accept_rule(ctx, "C13.R5", core)

    # ---------------- R6 the operator forms are reached for every list, the empty one included
    ctx.rule("C13.R6", "`list via f`, `list where p` and `list into f` reach their own arm for every list: nothing in the list-scalar copy answers before the operator is dispatched (an empty-list shortcut would make `[] into f` differ from `f([])`)", floor=1)
    from rules import c11 as c11_
    from lib import binop as B_
    try:
        c11_.no_answer_before_dispatch(ctx, "C13.R6", B_.Copies(core))
    except CheckerError as ex_:
        ctx.inst("C13.R6", "list-scalar#no-answer-before-dispatch", None, "the operator copies could not be located: %s" % ex_, None)

    # ---------------- R7 a callback never runs under a heap guard
    ctx.rule("C13.R7", "no RefCell guard of the heap is live while a callback runs, in the operator forms and in the higher-order built-ins alike (a callback that allocates would end the evaluation with 'already borrowed' in one form and succeed in its sibling)", floor=8)
    from rules import c01 as c01_
    for fn_, k_, live_, loc_ in c01_.callback_guard_sites(core):
        ctx.inst("C13.R7", "%s#callback%d" % (fn_.replace("blots_core::", ""), k_), not live_, "heap guards that may be live during the callback: %s" % (live_ or "none"), loc_)

    # ---------------- R8 the function named on the right of via / where / into is captured like any other name
    ctx.rule("C13.R8", "inside a function, `xs via g` sees the same g as `map(xs, g)`: the capture analysis scans both operands of every binary operator unconditionally, and every call argument", floor=2)
    c04.free_variable_rule(ctx, "C13.R8", core, only=lambda k_: k_.startswith("recurses-into=Expr::BinaryOp") or k_.startswith("recurses-into=Expr::Call"))

    # ---------------- R1 definition / this pairing
    ctx.rule("C13.R1", "at every FunctionDef::call site the function definition comes from get_function_def(F) and the `this` argument is that same value F (so a named function sees itself under its own name)", floor=16)
    this_pairing(ctx, "C13.R1", core, sites)

    # ---------------- R2 index passing
    ctx.rule("C13.R2", "element-wise callers (via, where, map, filter, every, some) pass [item, index] exactly when the function's arity can accept 2, else [item]; reduce passes [acc, item, index] when it can accept 3, else [acc, item]; key functions (sort_by, group_by, count_by) and into / scalar via pass one argument", floor=14)
    call_protocol(ctx, "C13.R2", core, sites)
    # the item passed is the element at the loop position of the list operand
    # ---------------- R3 result handling
    ctx.rule("C13.R3", "where and filter keep the item exactly when as_bool(result) is true; via and map collect the result; every returns false on the first false and true at the end; some returns true on the first true and false at the end; reduce threads the accumulator from the initial value", floor=7)
    bic = core.hir_fn(BCALL)
    m = H.main_match(bic["body"], "functions::BuiltInFunction")
    arms = {}
    for a in m["arms"]:
        for v in H.pat_variants(a["pat"]):
            arms[H.last(v)] = a

    def loop_body_summary(body_node):
        """what happens with the callback result inside the element loop"""
        out = {"push": [], "ret": [], "assign": []}
        res_names = set()
        for n in H.walk(body_node):
            if H.kind(n) == "Let" and H.kind(n.get("pat")) == "Bind" and n.get("init") is not None and any(H.kind(x) == "MethodCall" and x.get("def") == FCALL for x in H.walk(n["init"])):
                res_names.add(n["pat"]["name"])
        return res_names

    def analyse(arm_body, kind):
        fors = [n for n in H.walk(arm_body) if H.kind(n) == "For" and any(H.kind(x) == "MethodCall" and x.get("def") == FCALL for x in H.walk(n["body"]))]
        if len(fors) != 1:
            return None, "expected one element loop containing the callback call, found %d" % len(fors)
        lp = fors[0]
        res = loop_body_summary(lp["body"])
        item_names = {n["pat"]["name"] for n in H.walk(lp["body"]) if H.kind(n) == "Let" and H.kind(n.get("pat")) == "Bind" and n["pat"]["name"] in ("item",)}
        pushes = [n for n in H.walk(lp["body"]) if H.kind(n) == "MethodCall" and n["name"] == "push"]
        ifs = [n for n in H.walk(lp["body"]) if H.kind(n) == "If"]
        rets = [n for n in H.walk(lp["body"]) if H.kind(n) == "Ret"]

        lets_lp = {n["pat"]["name"]: n["init"] for n in H.walk(lp["body"]) if H.kind(n) == "Let" and H.kind(n.get("pat")) == "Bind" and n.get("init") is not None}

        def cond_is_as_bool(c, negated):
            c = H.strip(c)
            # `let keep = result.as_bool()?; if keep { .. }`
            if H.path_local(c) in lets_lp and H.path_local(c) not in res:
                c = H.strip(lets_lp[H.path_local(c)])
            if negated:
                if H.kind(c) == "Unary" and c["op"] == "Not":
                    c = H.strip(c["e"])
                else:
                    return False
            elif H.kind(c) == "Unary":
                return False
            if H.kind(c) == "Try":
                c = H.strip(c["e"])
            while H.kind(c) == "MethodCall" and c["name"] in ("map_err",):
                c = H.strip(c["recv"])
            return H.kind(c) == "MethodCall" and c["name"] == "as_bool" and H.path_local(c["recv"]) in res

        if kind == "collect":
            ok = len(pushes) == 1 and H.path_local(pushes[0]["args"][0]) in res and not any(any(p is x for x in H.walk(i["then"])) for i in ifs for p in pushes)
            return ok, "pushes the callback result unconditionally: %s" % ok
        if kind == "keep":
            if len(pushes) != 1:
                return None, "expected one push in the element loop, found %d" % len(pushes)
            if H.path_local(pushes[0]["args"][0]) in res:
                return False, "keeps the callback's result instead of the item"
            guard = [i for i in ifs if any(p is x for x in H.walk(i["then"]) for p in pushes)]
            if len(guard) != 1:
                return (False, "the item is pushed unconditionally") if not guard and not any(H.kind(x) in ("Match", "Continue") for x in H.walk(lp["body"])) else (None, "the test that guards the push was not recognised")
            # the callback's result is judged by as_bool alone: a match on its kind in front of it (`Value::Null => false`) makes the
            # operator form accept results the built-in form rejects
            special = [H.loc(m_) for m_ in H.walk(lp["body"]) if H.kind(m_) == "Match" and H.path_local(H.strip(m_["scrut"])) in res
                       and any("values::Value::" in v_ for a_ in m_["arms"] for v_ in H.pat_variants(a_["pat"]))]
            if special:
                return False, "the predicate's result is matched on its kind before as_bool (%s): some non-boolean results are accepted here and rejected by the sibling form" % special[0]
            if cond_is_as_bool(guard[0]["cond"], False):
                return True, "pushes the item under `if as_bool(result)`: True"
            if cond_is_as_bool(guard[0]["cond"], True):
                return False, "keeps the item when the predicate answers false"
            # the pushed item is the element handed to the callback
            return None, "the condition that guards the push is not `as_bool(result)` in a recognised spelling"
        if kind in ("every", "some"):
            neg = kind == "every"
            guard = [i for i in ifs if any(H.kind(x) == "Ret" for x in H.walk(i["then"]))]
            ok = len(guard) == 1 and cond_is_as_bool(guard[0]["cond"], neg)
            if ok:
                r = [x for x in H.walk(guard[0]["then"]) if H.kind(x) == "Ret"][0]
                v = S.norm(r["e"], S.Env())
                ok = v == ("ctor", "Bool", ("lit", "false" if neg else "true"))
            fin = S.norm(H.final_expr(arm_body), S.Env())
            ok = ok and fin == ("ctor", "Bool", ("lit", "true" if neg else "false"))
            # an answer given outside the element loop (an empty-list shortcut) must be the answer the loop would give for the
            # lists it covers: the empty conjunction is true, the empty disjunction false - i.e. the value after the loop
            in_loop = {id(x) for x in H.walk(lp["body"])}
            for r_ in H.walk(arm_body):
                if H.kind(r_) == "Ret" and id(r_) not in in_loop and r_.get("e") is not None:
                    v_ = S.norm(r_["e"], S.Env())
                    if isinstance(v_, tuple) and len(v_) == 3 and v_[:2] == ("ctor", "Bool") and v_[2][0] == "lit" and v_ != fin and fin[:2] == ("ctor", "Bool"):
                        return False, "a return outside the element loop (%s) answers %s where the loop's own result for no elements is %s" % (H.loc(r_), v_[2][1], fin[2][1] if len(fin) == 3 else fin)
            return ok,"returns %s on the first %s result, %s after the loop: %s" % ("false" if neg else "true", "false" if neg else "true", "true" if neg else "false", ok)
        return None, "?"

    bop = core.hir_fn(BINOP)
    # operator arms: the list-scalar copy's Via / Where arms
    from lib import binop as B
    C = B.Copies(core)
    inner = C.inner_op_match(C.arm_ls["body"])
    for label, node, kind in (("via", C.op_arm(inner, "Via"), "collect"), ("where", C.op_arm(inner, "Where"), "keep")):
        ok, d = analyse(node["body"], kind)
        ctx.inst("C13.R3", "operator#%s" % label, ok, d, H.loc(node["body"]))
    for label, kind in (("Map", "collect"), ("Filter", "keep"), ("Every", "every"), ("Some", "some")):
        if label not in arms:
            ctx.inst("C13.R3", "builtin#%s" % label, False, "no arm", None)
            continue
        ok, d = analyse(arms[label]["body"], kind)
        ctx.inst("C13.R3", "builtin#%s" % label, ok, d, H.loc(arms[label]["body"]))
    # reduce
    ra = arms.get("Reduce")
    okr, dr = False, "no Reduce arm"
    if ra is not None:
        fors = [n for n in H.walk(ra["body"]) if H.kind(n) == "For"]
        acc_assign = [n for n in H.walk(ra["body"]) if H.kind(n) == "Assign" and H.path_local(n["l"]) is not None and any(H.kind(x) == "MethodCall" and x.get("def") == FCALL for x in H.walk(n["r"]))]
        okr = True if (len(fors) == 1 and len(acc_assign) == 1) else None
        dr = "the Reduce arm does not have the modelled shape (one loop, one accumulator assignment from the callback): %d loop(s), %d assignment(s)" % (len(fors), len(acc_assign))
        if okr:
            acc = H.path_local(acc_assign[0]["l"])
            an_ = H.param_by_type(bic, "Vec<blots_core::values::Value>", "args")
            env = S.Env(roles={an_: ("param", "args")})
            lets = {n["pat"]["name"]: n["init"] for n in H.walk(ra["body"]) if H.kind(n) == "Let" and H.kind(n.get("pat")) == "Bind" and n.get("init") is not None}
            init = S.norm(lets.get(acc), S.Env(roles={an_: ("param", "args")}, inline={k: (v, S.Env(roles={an_: ("param", "args")})) for k, v in lets.items() if k != acc})) if acc in lets else None
            call = [x for x in H.walk(acc_assign[0]["r"]) if H.kind(x) == "MethodCall" and x.get("def") == FCALL][0]
            argv = H.strip(call["args"][1])
            first_is_acc = any(H.kind(x) == "Array" and x["es"] and H.path_local(x["es"][0]) == acc for lname, lv in lets.items() if lname == H.path_local(argv) for x in H.walk(lv))
            fin = H.path_local(H.final_expr(ra["body"])["args"][0]) if H.kind(H.final_expr(ra["body"])) == "Call" and H.final_expr(ra["body"])["args"] else None
            if init is not None and init[0] == "var":
                # bound by a pattern (e.g. `let [list, func, initial] = args.as_slice()`): resolve through the scoped walk
                sc_ = scope.sites(ra["body"], lambda n: n is acc_assign[0], env)
                if sc_:
                    init = S.norm({"k": "Path", "res": {"local": init[1]}}, sc_[0][1])
            okr = S.both(S.verdict(init, ("index", ("param", "args"), ("lit", "2"))) if init is not None else None, bool(first_is_acc), fin == acc)
            dr = "accumulator starts as args[2] (%s), is the first callback argument (%s), is reassigned from each result and returned (%s)" % (S.show(init) if init else None, first_is_acc, fin == acc)
            # positively wrong whatever the rest looks like: a seed chosen by a condition (the fold "repairs" some seeds), or a walk that
            # does not start at the first element
            for n_ in H.walk(ra["body"]):
                if isinstance(n_, dict) and n_.get("k") == "Let" and n_.get("init") is not None and acc in H.pat_binds(n_["pat"]) and H.kind(H.final_expr(n_["init"])) in ("If", "Match"):
                    okr, dr = False, "the accumulator's starting value is chosen by a condition (%s): for some seeds the fold does not start from the given initial value" % H.loc(n_["init"])
            it_ = H.strip(fors[0]["iter"])
            if H.kind(it_) == "Struct" and (it_.get("res") or {}).get("def", "").endswith("ops::range::Range"):
                st_ = [f_["e"] for f_ in it_.get("fields", []) if f_["name"] == "start"]
                if st_ and not (H.lit(st_[0]) and H.lit(st_[0])["v"] in ("0", 0)):
                    okr, dr = False, "the fold's index range does not start at 0 (%s): leading elements are skipped" % H.loc(it_)
    ctx.inst("C13.R3", "builtin#Reduce", okr, dr, H.loc(ra["body"]) if ra else None)

    # ---------------- R9 what counts as a function, and how the operators are written
    ctx.rule("C13.R9", "every test for 'the right operand is a function' in the evaluator accepts built-ins and lambdas alike (is_callable, or is_lambda and is_built_in together; is_callable itself matches both variants): `xs where is_string`-style uses of a built-in work in the operator forms as in map/filter; and the printers write via / where / into with the words the grammar reads", floor=8)
    n_g = 0
    from rules.panics import diverges as P_diverges
    for fn_ in (BINOP, EVAL):
        k_ = 0
        for n_ in H.walk(core.hir_fn(fn_)["body"]):
            if H.kind(n_) != "If":
                continue
            names_ = sorted({x["name"] for x in H.walk(n_["cond"]) if H.kind(x) == "MethodCall" and x["name"] in ("is_callable", "is_lambda", "is_built_in")})
            if not names_ or not P_diverges(n_["then"]):
                continue   # only tests that refuse the operand (the branch leaves with an error) say what counts as a function
            k_ += 1
            n_g += 1
            ok_ = names_ == ["is_callable"] or set(names_) >= {"is_lambda", "is_built_in"}
            ctx.inst("C13.R9", "%s#callable-test%d" % (H.last(fn_), k_), ok_, "the test uses %s%s" % (names_, "" if ok_ else ": one kind of function is refused here and accepted by the sibling forms"), H.loc(n_))
    ctx.inst("C13.R9", "callable-tests#found", n_g >= 5, "%d callable tests found in the evaluator (5 counted at the pinned tree)" % n_g, None)
    ic_ = core.hir_fn("blots_core::values::Value::is_callable")
    vs_ = sorted({H.last(v) for n_ in H.walk(ic_["body"]) if H.kind(n_) in ("Match", "Let", "If") or True for v in (H.pat_variants(n_["pat"]) if isinstance(n_, dict) and n_.get("pat") is not None and H.kind(n_) in ("Arm", "Let", "LetExpr") else [])}) if ic_ else []
    if ic_:
        m_ = [n_ for n_ in H.walk(ic_["body"]) if H.kind(n_) == "Match"]
        vs_ = sorted({H.last(v) for mm in m_ for a_ in mm["arms"] for v in H.pat_variants(a_["pat"])})
    ctx.inst("C13.R9", "Value::is_callable", None if not ic_ or not vs_ else set(vs_) >= {"BuiltIn", "Lambda"}, "is_callable matches %s" % vs_, H.loc(ic_["body"]) if ic_ else None)
    from rules import printers as P_
    from rules.c04 import _Only
    from lib.peg import Grammar as Grammar_
    P_.L1_tokens(_Only(ctx, lambda k: any(("[%s]" % o) in k for o in ("Via", "Where", "Into")) or k == "binary-token-tables"), "C13.R9", core, Grammar_(ctx.grammar))

    # ---------------- R10 what every calling form shares: one call protocol, decided inside FunctionDef::call
    ctx.rule("C13.R10", "the forms cannot disagree about what FunctionDef::call decides, because only it decides it: check_arity has no caller outside FunctionDef::call (an up-front arity check in one form answers for lists whose elements the sibling form never visits: `[] where p`); a built-in is handed the caller's environment, so the callbacks of map / filter / reduce resolve late-bound names as the operator forms do; and the parameters are bound after the function's own name, so a callback whose parameter is spelled like the function still receives the element", floor=3)
    from lib import mir as M_
    cg_ = M_.CallGraph([core])
    CHK = "blots_core::functions::FunctionDef::check_arity"
    callers = sorted(n_ for n_, outs_ in cg_.out.items() if CHK in outs_ and "::tests::" not in n_)
    extra = [n_ for n_ in callers if (cg_.fns.get(n_, {}).get("parent") or n_) != FCALL]
    ctx.inst("C13.R10", "check_arity#callers", (not extra) if callers else None, "check_arity is called from %s%s" % ([c_.replace("blots_core::", "") for c_ in callers], "" if not extra else ": a pre-check outside FunctionDef::call"), None)
    fcm = M_.Fn(core.mir_fn(FCALL), FCALL)
    hfc_ = core.hir_fn(FCALL)
    envp_ = [i_ for i_, t_ in enumerate(hfc_["inputs"]) if "environment::Environment" in t_]
    for b_ in fcm.calls_to(BCALL):
        args_ = fcm.term(b_)["args"]
        envargs = [a_ for a_, t_ in zip(args_, fcm.term(b_).get("argtys") or []) if "environment::Environment" in t_]
        if not envargs or not envp_:
            ctx.inst("C13.R10", "builtin#environment", None, "environment argument of BuiltInFunction::call not identified", fcm.loc(b_))
            continue
        roots_ = fcm.trace(envargs[0])
        from_param = bool(roots_) and all(r_[0] == "param" for r_ in roots_)
        fresh = any(r_[0] == "call" and "environment::Environment" in r_[1] for r_ in roots_)
        ctx.inst("C13.R10", "builtin#environment", True if from_param else (False if fresh else None), "BuiltInFunction::call receives %s (must be the caller's environment: higher-order built-ins evaluate their callbacks in it)" % [r_[:2] for r_ in roots_], fcm.loc(b_))
    c04.parameters_last(ctx, "C13.R10", core)
    c04.positional_binding(ctx, "C13.R10", core)

    # ---------------- R4 depth policy
    ctx.rule("C13.R4", "equivalent forms account call depth alike: the operator forms and the built-in forms pass the same depth to the callback", floor=2)
    deps = {}
    for fn, n, e, g in sites:
        label = context_of(g, fn) or "Call"
        d = deep_unhoist(S.norm(n["args"][4], e))
        deps.setdefault((H.last(fn), label), set()).add(S.show(d))
    pairs = [("Via", "Map"), ("Where", "Filter")]
    # as long as the accounting differs between the forms, they agree only for recursions shallow enough for the costlier form:
    # that threshold is the depth limit divided by the units the costlier form consumes per level - it must stay at the documented limit
    from rules import c18 as c18_
    lim_ = c18_.read_limit(core, [core, ctx.cli, ctx.wasm])
    ctx.inst("C13.R4", "depth-limit#agreement-threshold", None if lim_ is None else lim_ >= 1000,
             "call-depth limit %s: with unequal accounting the forms part ways beyond roughly limit/3 nested levels (a lower limit makes them disagree at ordinary depths)" % lim_, None)
    for opn, bin_ in pairs:
        a = deps.get(("evaluate_binary_op_ast", opn), set())
        b = deps.get(("call", bin_), set())
        # the built-in form is itself entered through FunctionDef::call (+1) -> BuiltInFunction::call (+1), then passes +1 again
        same = a == b
        ctx.inst("C13.R4", "%s~%s" % (opn.lower(), bin_.lower()), same,
                 "%s passes %s to the callback; %s passes %s on top of the +1 of its own call: a recursion that nests through %s exhausts the call-depth limit about three times sooner than the same recursion through %s" % (opn.lower(), sorted(a), bin_.lower(), sorted(b), bin_.lower(), opn.lower()), None)


def call_sites(core):
    sites = []
    for fn in (BINOP, BCALL, EVAL):
        f = core.hir_fn(fn)
        env = S.Env()
        for p in f["params"]:
            for bn in H.pat_binds(p):
                env.roles[bn] = ("param", bn)
        for n, e, g in scope.sites(f["body"], lambda n: H.kind(n) == "MethodCall" and n.get("def") == FCALL, env):
            sites.append((fn, n, e, g))
    return sites


def this_pairing(ctx, rid, core, sites=None):
    """the `this` handed to FunctionDef::call is the function value itself (shared with C03: under its own name a function sees itself,
    never the piped value or anything else)"""
    if sites is None:
        S.TEMPLATES = None
        S.INLINE = S.default_inline(core)
        sites = call_sites(core)
    per_ctx = {}
    for fn, n, e, g in sites:
        label = context_of(g, fn) or "Call"
        idx = per_ctx.get((fn, label), 0)
        per_ctx[(fn, label)] = idx + 1
        key = "%s[%s]#%d" % (H.last(fn), label, idx)
        d = strip_wrappers(S.norm(n["recv"], e))
        this = deep_unhoist(S.norm(n["args"][0], e))
        ok, why = False, ""
        if d[0] == "fn" and d[1] == "get_function_def" and len(d) >= 3:
            f_arg = deep_unhoist(d[2])
            ok = f_arg == this
            why = "definition of %s, this = %s" % (S.show(f_arg)[:80], S.show(this)[:80])
        else:
            ok, why = None, "definition is not a direct get_function_def(..) result: %s" % S.show(d)[:100]
        ctx.inst(rid, key, ok, why, H.loc(n))


def call_protocol(ctx, rid, core, sites=None):
    """which arguments each caller of FunctionDef::call passes (shared with C14: key functions of sort_by / group_by / count_by get the element alone)"""
    if sites is None:
        S.TEMPLATES = None
        S.INLINE = S.default_inline(core)
        sites = call_sites(core)
    ELEMENTWISE = {"Via", "Where", "Map", "Filter", "Every", "Some"}
    per_ctx = {}
    shapes = {}
    for fn, n, e, g in sites:
        label = context_of(g, fn) or "Call"
        idx = per_ctx.get((fn, label), 0)
        per_ctx[(fn, label)] = idx + 1
        key = "%s[%s]#%d" % (H.last(fn), label, idx)
        a = deep_unhoist(S.norm(n["args"][1], e))
        d = deep_unhoist(strip_wrappers(S.norm(n["recv"], e)))
        in_loop = any(x[0] == "loop" for x in g)
        shape = None
        if a[0] == "if" and a[2][0] == "vec" and a[3][0] == "vec":
            c = strip_wrappers(a[1])
            n_hi, n_lo = len(a[2]) - 1, len(a[3]) - 1
            flag_ok = c[0] == "call" and c[1] == "can_accept" and c[3] == ("lit", str(n_hi)) and strip_wrappers(c[2]) == ("call", "arity", ("try", d)) or \
                (c[0] == "call" and c[1] == "can_accept" and c[3] == ("lit", str(n_hi)) and deep_unhoist(strip_wrappers(strip_wrappers(c[2])[2] if strip_wrappers(c[2])[0] == "call" and strip_wrappers(c[2])[1] == "arity" else ("?",))) == d)
            last = a[2][-1]
            idx_ok = last[0] == "ctor" and last[1] == "Number" and last[2][0] == "cast" and last[2][2][0] == "loopvar"
            prefix_ok = a[2][1:-1] == a[3][1:]
            shape = ("indexed", n_hi, bool(flag_ok), bool(idx_ok), bool(prefix_ok))
        elif a[0] == "vec":
            shape = ("plain", len(a) - 1)
        elif label == "Call":
            shape = ("spread-flattened arguments",)
        shapes[key] = shape

        def longest_vec(t_):
            if not isinstance(t_, tuple):
                return 0
            here = len(t_) - 1 if t_ and t_[0] == "vec" else 0
            return max([here] + [longest_vec(x_) for x_ in t_])
        too_many = None
        if label in ELEMENTWISE and longest_vec(a) > 2:
            too_many = "an element-wise caller builds an argument list of %d values: the callback is handed something besides the element and its index" % longest_vec(a)
        elif label == "Reduce" and longest_vec(a) > 3:
            too_many = "reduce builds an argument list of %d values: more than accumulator, element and index" % longest_vec(a)
        if label in ELEMENTWISE and in_loop and fn in (BINOP, BCALL) and not (fn == BINOP and shape == ("plain", 1) and label == "Via"):
            ok = None if shape is None else (shape[0] == "indexed" and shape[1] == 2 and all(shape[2:]))
            if too_many:
                ok = False
            ctx.inst(rid, key, ok, "argument list %s -> %s (want [item, Number(idx)] iff arity().can_accept(2), else [item])%s" % (S.show(a)[:160], shape, "; " + too_many if too_many else ""), H.loc(n))
        elif label == "Reduce":
            ok = None if shape is None else (shape[0] == "indexed" and shape[1] == 3 and all(shape[2:]))
            if too_many:
                ok = False
            ctx.inst(rid, key, ok, "argument list -> %s (want [acc, item, Number(idx)] iff can_accept(3), else [acc, item])" % (shape,), H.loc(n))
        elif label == "Call":
            ctx.inst(rid, key, True, "direct call: evaluated arguments, spreads flattened", H.loc(n))
        else:
            ok = None if shape is None else shape == ("plain", 1)
            if ok is None and a[0] == "if" and len(a) >= 4 and a[2] != a[3]:
                # `x into f` is f(x) for every f: an argument list chosen by a condition (on the arity, on the operand) is not that
                ok = False
            ctx.inst(rid, key, ok, "argument list %s -> %s (one argument)" % (S.show(a)[:100], shape), H.loc(n))
